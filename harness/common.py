"""Shared infrastructure of the checks: lake build + axiom audit, model driver, known findings,
violation / evidence reporting.  Everything is deterministic in (VERIF_SEED, tier)."""
from __future__ import annotations

import fcntl
import fnmatch
import hashlib
import json
import os
import random
import re
import subprocess
import sys
import time
from pathlib import Path

VERIF = Path(__file__).resolve().parent.parent
LEAN = VERIF / "lean"
EXE = LEAN / ".lake" / "build" / "bin" / "ndonnx_model"
WORK = VERIF / ".work"
REPO = Path("/repo")

ALLOWED_AXIOMS = {"propext", "Classical.choice", "Quot.sound"}
FORBIDDEN = re.compile(
    r"\bsorry\b|\badmit\b|^\s*axiom\s|native_decide|bv_decide|implemented_by|\bunsafe\s|maxHeartbeats\s+0"
)

TRUSTED_BASE = [
    "Lean 4.33 kernel; axioms allowed: propext, Classical.choice, Quot.sound (audited with #print axioms)",
    "hand-written Lean model of ndonnx's Python layer (NdonnxVerif/Model), tied to /repo by the value-level correspondence run of this check",
    "ONNX operator semantics as modelled (assumption, validated against onnxruntime through the same correspondence)",
    "NumPy reference semantics (NdonnxVerif Spec namespaces), validated against the installed NumPy in the same run",
    "the Python harness (generators, canonicalisers, comparators), CPython, NumPy, spox, onnx, onnxruntime",
]


class Infra(Exception):
    """Infrastructure failure: exit 2, never a VIOLATION."""


def _filter(s: str) -> str:
    return "\n".join(l for l in s.splitlines() if "conda.cli.condarc" not in l)


# --------------------------------------------------------------------------------------
# Lean side
# --------------------------------------------------------------------------------------
def lake_build(timeout: int = 3000) -> tuple[bool, str]:
    """Incremental `lake build` under a lock (20 checks may run concurrently)."""
    WORK.mkdir(exist_ok=True)
    with open(WORK / "lake.lock", "w") as lock:
        fcntl.flock(lock, fcntl.LOCK_EX)
        try:
            p = subprocess.run(
                ["lake", "build", "NdonnxVerif", "ndonnx_model"],
                cwd=LEAN, capture_output=True, text=True, timeout=timeout,
            )
        except subprocess.TimeoutExpired as e:
            raise Infra(f"lake build timed out: {e}")
        finally:
            fcntl.flock(lock, fcntl.LOCK_UN)
    return p.returncode == 0, _filter(p.stdout + p.stderr)


def forbidden_tokens() -> list[str]:
    hits = []
    for f in sorted(LEAN.rglob("*.lean")):
        if ".lake" in f.parts:
            continue
        in_block = 0
        for n, line in enumerate(f.read_text().splitlines(), 1):
            # strip block comments (/- ... -/) and line comments
            s = line
            out = ""
            i = 0
            while i < len(s):
                if s.startswith("/-", i):
                    in_block += 1
                    i += 2
                elif s.startswith("-/", i) and in_block:
                    in_block -= 1
                    i += 2
                elif in_block:
                    i += 1
                elif s.startswith("--", i):
                    break
                else:
                    out += s[i]
                    i += 1
            if FORBIDDEN.search(out):
                hits.append(f"{f.relative_to(VERIF)}:{n}: {line.strip()}")
    return hits


def theorem_names(prop: str) -> list[str]:
    """Theorems of `Props/<prop>.lean` = the proof obligations of the property."""
    names = []
    for f in prop_files(prop):
        src = f.read_text()
        ns = re.search(r"^namespace\s+(\S+)", src, re.M)
        prefix = ns.group(1) + "." if ns else ""
        names += [prefix + m.group(1) for m in re.finditer(r"^theorem\s+([^\s:({\[]+)", src, re.M)]
    return names


def prop_files(prop: str):
    """`Props/<prop>.lean` and its continuation files `Props/<prop><Suffix>.lean`."""
    d = LEAN / "NdonnxVerif" / "Props"
    return [d / f"{prop}.lean"] + sorted(p for p in d.glob(f"{prop}?*.lean"))


def audit(prop: str) -> dict:
    """`#print axioms` on every theorem of the property.  Returns obligations/discharged/axioms."""
    names = theorem_names(prop)
    WORK.mkdir(exist_ok=True)
    f = WORK / f"Audit_{prop}_{os.getpid()}.lean"
    f.write_text(
        "".join(f"import NdonnxVerif.Props.{p.stem}\n" for p in prop_files(prop)) + "".join(f"#print axioms {n}\n" for n in names)
    )
    try:
        p = subprocess.run(["lake", "env", "lean", str(f)], cwd=LEAN, capture_output=True,
                           text=True, timeout=900)
    except subprocess.TimeoutExpired as e:
        raise Infra(f"axiom audit timed out: {e}")
    finally:
        f.unlink(missing_ok=True)
    out = _filter(p.stdout + p.stderr)
    axioms: dict[str, list[str]] = {}
    for m in re.finditer(r"^'([^\n]+?)' depends on axioms: \[([^\]]*)\]", out, re.S | re.M):
        axioms[m.group(1)] = [a.strip() for a in m.group(2).replace("\n", " ").split(",") if a.strip()]
    for m in re.finditer(r"^'([^\n]+?)' does not depend on any axioms", out, re.M):
        axioms[m.group(1)] = []
    discharged, bad = [], []
    for n in names:
        if n in axioms and set(axioms[n]) <= ALLOWED_AXIOMS:
            discharged.append(n)
        else:
            bad.append((n, axioms.get(n, "not-found")))
    return {"obligations": names, "discharged": discharged, "bad": bad, "axioms": axioms,
            "raw": out if bad else ""}


def model(lines: list[str], timeout: int = 1200) -> list[str]:
    """Run the compiled model driver on protocol lines; one answer per line."""
    if not lines:
        return []
    if not EXE.exists():
        raise Infra(f"model driver {EXE} missing (build failed?)")
    for l in lines:
        if "\n" in l:
            raise Infra("newline inside protocol line")
    try:
        p = subprocess.run([str(EXE)], input="\n".join(lines) + "\n", capture_output=True,
                           text=True, timeout=timeout)
    except subprocess.TimeoutExpired as e:
        raise Infra(f"model driver timed out: {e}")
    if p.returncode != 0:
        raise Infra(f"model driver failed rc={p.returncode}: {p.stderr[-2000:]}")
    out = p.stdout.splitlines()
    if len(out) != len(lines):
        raise Infra(f"model driver answered {len(out)} lines for {len(lines)} requests")
    return out


# --------------------------------------------------------------------------------------
# Known findings
# --------------------------------------------------------------------------------------
def load_findings(prop: str) -> list[dict]:
    """`finding: property=<id> key=<glob> :: <what fails>`; `fixed:` lines suppress nothing."""
    res = []
    f = VERIF / "known_findings.txt"
    if not f.exists():
        return res
    for line in f.read_text().splitlines():
        line = line.strip()
        m = re.match(r"finding:\s+property=(\S+)\s+key=(\S+)\s+::\s+(.*)", line)
        if m and m.group(1) == prop:
            res.append({"key": m.group(2), "what": m.group(3)})
    return res


# --------------------------------------------------------------------------------------
# Check context
# --------------------------------------------------------------------------------------
class Ctx:
    def __init__(self, prop: str, tier: str):
        self.prop = prop
        self.tier = tier
        self.seed = int(os.environ.get("VERIF_SEED", "0") or 0)
        self.rng = random.Random(f"{prop}/{self.seed}")
        self.t0 = time.time()
        self.findings = load_findings(prop)
        self.known_hits: dict[str, int] = {}      # finding key -> count of suppressed cases
        self.known_reproduced: list[dict] = []    # listed findings whose witness still fails
        self.violations: list[dict] = []          # unlisted, with failing input
        self.broken: list[dict] = []              # correspondence/obligation broken, no failing input (yet)
        self.evaluations = 0
        self.nontrivial: set = set()
        self.samples: list = []
        self.dist: dict[str, int] = {}
        self.extra: dict = {}
        self.assumptions: list[str] = []
        self.audit_info: dict | None = None
        self.budget = float(os.environ.get("VERIF_BUDGET_S", "0") or 0) or (
            150 if tier == "quick" else 1200)

    # -- time ----------------------------------------------------------------------
    def elapsed(self) -> float:
        return time.time() - self.t0

    def time_left(self) -> float:
        return self.budget - self.elapsed()

    # -- coverage accounting -----------------------------------------------------------
    def count(self, bucket: str, n: int = 1):
        self.dist[bucket] = self.dist.get(bucket, 0) + n

    def case(self, ident, nontrivial: bool = True, sample=None):
        """Register one explored case; `ident` must be hashable and identify the case."""
        self.evaluations += 1
        if nontrivial:
            self.nontrivial.add(ident if isinstance(ident, (str, int, tuple)) else repr(ident))
        if sample is not None and len(self.samples) < 12:
            self.samples.append(sample)

    # -- outcomes --------------------------------------------------------------------
    def match_finding(self, key: str):
        for f in self.findings:
            if fnmatch.fnmatchcase(key, f["key"]):
                return f
        return None

    def violation(self, key: str, what: str, replay: dict):
        """The implementation violates the property on a concrete input (impl != oracle)."""
        f = self.match_finding(key)
        if f is not None:
            self.known_hits[f["key"]] = self.known_hits.get(f["key"], 0) + 1
            return False
        if len(self.violations) < 200:
            self.violations.append({"key": key, "what": what, "replay": replay})
        return True

    def corr_broken(self, name: str, detail: dict):
        """Model and implementation disagree although the implementation agrees with the
        oracle (or no oracle applies): the property is no longer *shown* to hold."""
        if len(self.broken) < 200:
            self.broken.append({"name": name, "detail": detail})

    def reproduce_known(self, key: str, still_fails: bool):
        f = self.match_finding(key)
        if f is not None and still_fails:
            if all(k["key"] != f["key"] for k in self.known_reproduced):
                self.known_reproduced.append(f)

    # -- finish ------------------------------------------------------------------------
    def finish(self, level: str = "proof") -> int:
        rdir = VERIF / "replays"
        rdir.mkdir(exist_ok=True)
        lines = []
        # known findings: one line per listed finding that reproduced (witness) or was hit
        printed = set()
        for f in self.known_reproduced:
            printed.add(f["key"])
            lines.append(f"KNOWN-FINDING: property={self.prop} {f['key']} :: {f['what']}")
        for f in self.findings:
            if f["key"] in self.known_hits and f["key"] not in printed:
                lines.append(f"KNOWN-FINDING: property={self.prop} {f['key']} :: {f['what']}")
        nviol = 0
        seen_keys = set()
        for v in self.violations:
            if v["key"] in seen_keys:
                continue
            seen_keys.add(v["key"])
            if nviol >= 8:      # one replay file per distinct key, at most 8 lines per run
                self.extra["violations_not_printed"] = self.extra.get("violations_not_printed", 0) + 1
                continue
            h = hashlib.sha1(json.dumps(v, sort_keys=True, default=str).encode()).hexdigest()[:10]
            path = rdir / f"{self.prop}-{h}.json"
            path.write_text(json.dumps({"property": self.prop, "seed": self.seed, "tier": self.tier,
                                        **v}, indent=1, default=str))
            lines.append(f"VIOLATION property={self.prop} replay={path}")
            nviol += 1
        if self.broken and nviol == 0:
            # obligations/correspondences that no longer check, and the search found no failing input
            h = hashlib.sha1(json.dumps(self.broken, sort_keys=True, default=str).encode()).hexdigest()[:10]
            path = rdir / f"{self.prop}-{h}-unproved.json"
            path.write_text(json.dumps({"property": self.prop, "seed": self.seed, "tier": self.tier,
                                        "no_longer_checks": self.broken[:50]}, indent=1, default=str))
            lines.append(f"VIOLATION property={self.prop} replay={path} no-failing-input-found")
            nviol += 1
        _k = {}
        for v in self.violations:
            _k.setdefault(v["key"], v["what"][:160])
        self.extra["all_violation_keys"] = [f"{k} :: {w}" for k, w in sorted(_k.items())][:200]
        self.write_evidence(level, nviol)
        for l in lines:
            print(l)
        sys.stdout.flush()
        return 1 if nviol else 0

    def write_evidence(self, level: str, nviol: int):
        a = self.audit_info or {"obligations": [], "discharged": []}
        gobl = getattr(self, "gen_obligations", [])
        gdis = getattr(self, "gen_discharged", [])
        cov = {
            "obligations": len(a["obligations"]) + len(gobl),
            "discharged": len(a["discharged"]) + len(gdis),
            "generated_table_theorems": gobl,
            "checker_cmd": "cd /verif/lean && lake build NdonnxVerif ndonnx_model && lake env lean <Audit: #print axioms of every theorem in Props/%s.lean>" % self.prop,
            "trusted_base": TRUSTED_BASE,
            "theorems": a["obligations"],
            "evaluations": self.evaluations,
            "distinct_nontrivial": len(self.nontrivial),
            "rule": self.extra.pop("rule", "see check source"),
            "samples": self.samples or ["(none)"],
            "distribution": dict(sorted(self.dist.items())),
            "known_findings_reproduced": [f["key"] for f in self.known_reproduced],
            "known_finding_hits": self.known_hits,
            "correspondence_broken": len(self.broken),
            **self.extra,
        }
        ev = {
            "property_id": self.prop,
            "tier": self.tier,
            "seed": self.seed,
            "level": level,
            "coverage": cov,
            "assumptions": self.assumptions or TRUSTED_BASE,
            "wall_s": round(self.elapsed(), 2),
            "violations": nviol,
        }
        (VERIF / "evidence").mkdir(exist_ok=True)
        (VERIF / "evidence" / f"{self.prop}.json").write_text(json.dumps(ev, indent=1, default=str))


def prepare_lean(ctx: Ctx):
    """Build, grep, audit.  A failed build or audit of the *hand-written* development is an
    infrastructure failure of /verif (it cannot be caused by an edit of /repo)."""
    ok, log = lake_build()
    if not ok:
        errs = [l for l in log.splitlines() if "error" in l]
        raise Infra("lake build failed:\n" + "\n".join(errs[:20]))
    hits = forbidden_tokens()
    if hits:
        raise Infra("forbidden tokens in the Lean development:\n" + "\n".join(hits))
    ctx.audit_info = audit(ctx.prop)
    if ctx.audit_info["bad"]:
        raise Infra(f"axiom audit failed: {ctx.audit_info['bad']}\n{ctx.audit_info['raw'][-3000:]}")
    if ctx.tier == "thorough":
        # independent re-check of the compiled theorem modules of this property by Lean's external kernel checker
        mods = [f"NdonnxVerif.Props.{p.stem}" for p in prop_files(ctx.prop)]
        try:
            p = subprocess.run(["lake", "env", "leanchecker"] + mods, cwd=LEAN, capture_output=True, text=True, timeout=1500)
        except subprocess.TimeoutExpired as e:
            raise Infra(f"leanchecker timed out: {e}")
        if p.returncode != 0:
            raise Infra(f"leanchecker rejected {mods}: {(p.stdout + p.stderr)[-2000:]}")
        ctx.extra["leanchecker"] = {"modules": mods, "result": "accepted"}
