"""Entry point: `python -m harness.check <Cxx> [--tier quick|thorough]` / `replay <path>`."""
from __future__ import annotations

import argparse
import importlib
import json
import os
import sys
import traceback

from . import common


def main() -> int:
    ap = argparse.ArgumentParser()
    ap.add_argument("prop")
    ap.add_argument("path", nargs="?")
    ap.add_argument("--tier", default=os.environ.get("VERIF_TIER", "quick"),
                    choices=["quick", "thorough"])
    args = ap.parse_args()

    if args.prop == "replay":
        from . import replay
        return replay.main(args.path)

    prop = args.prop.upper()
    ctx = common.Ctx(prop, args.tier)
    try:
        mod = importlib.import_module(f"harness.props.{prop.lower()}")
        common.prepare_lean(ctx)
        from . import witnesses
        witnesses.replay_all(ctx)
        mod.run(ctx)
        return ctx.finish()
    except common.Infra as e:
        print(f"INFRA-FAILURE property={prop}: {e}", file=sys.stderr)
        return 2
    except Exception:
        traceback.print_exc()
        print(f"INFRA-FAILURE property={prop}: unexpected harness exception", file=sys.stderr)
        return 2


if __name__ == "__main__":
    sys.exit(main())
