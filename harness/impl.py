"""Access to the implementation under test (ndonnx from /repo's working tree) and canonical forms."""
from __future__ import annotations

import os
import warnings

os.environ.setdefault("OMP_NUM_THREADS", "1")
warnings.filterwarnings("ignore")

import numpy as np  # noqa: E402
import onnxruntime as ort  # noqa: E402

import ndonnx as ndx  # noqa: E402

assert os.path.realpath(ndx.__file__).startswith("/repo/"), ndx.__file__

ort.set_default_logger_severity(4)

CORE = ["int8", "int16", "int32", "int64", "uint8", "uint16", "uint32", "uint64",
        "float32", "float64", "bool", "utf8"]
NULLABLE = ["n" + d for d in CORE]
ALL_DTYPES = CORE + NULLABLE
INTS = ["int8", "int16", "int32", "int64", "uint8", "uint16", "uint32", "uint64"]
FLOATS = ["float32", "float64"]


def dt(name: str):
    return getattr(ndx, name)


def dtname(d) -> str:
    for n in ALL_DTYPES:
        if d == getattr(ndx, n):
            return n
    return repr(d)


def np_dtype(name: str):
    base = name[1:] if name.startswith("n") and name != "n" and name[1:] in CORE else name
    return np.dtype(str) if base == "utf8" else np.dtype(base)


def is_nullable(name: str) -> bool:
    return name in NULLABLE


def errclass(e: BaseException) -> str:
    """Map an exception to the model's PyErr enum."""
    if isinstance(e, ndx.UnsupportedOperationError):
        return "UnsupportedOperationError"
    if isinstance(e, ndx.CastError):
        return "CastError"
    if isinstance(e, TypeError):
        return "TypeError"
    if isinstance(e, IndexError):
        return "IndexError"
    if isinstance(e, ValueError):
        return "ValueError"
    if isinstance(e, AttributeError):
        return "AttributeError"
    return "Other"


def token_array(shape, dtype: str, salt: int = 0):
    """Array whose elements identify their own flat position (for data-movement checks).
    Returns a numpy array (masked for nullable dtypes; mask = position % 3 == salt % 3)."""
    size = int(np.prod(shape)) if len(shape) else 1
    pos = np.arange(size).reshape(shape)
    base = dtype[1:] if is_nullable(dtype) else dtype
    if base == "utf8":
        vals = np.array([f"t{p}" for p in pos.flat], dtype=str).reshape(shape) if size else np.zeros(shape, dtype="<U1")
    elif base == "bool":
        vals = (pos % 2 == 1)
    elif base in ("int8", "uint8"):
        vals = (pos % 120).astype(base)
    else:
        vals = pos.astype(base)
    if is_nullable(dtype):
        mask = (pos % 3 == salt % 3)
        return np.ma.masked_array(vals, mask=mask)
    return vals


def canon(a):
    """Canonical (dtype, shape, values, mask) of a numpy / masked array for exact comparison."""
    if isinstance(a, Malformed):
        return ("malformed", a.what, a.info, None)
    if isinstance(a, np.ma.MaskedArray):
        mask = np.broadcast_to(np.ma.getmaskarray(a), a.shape)
        data = np.asarray(a.data)
        vals = [None if m else _scalar(v) for v, m in zip(data.reshape(-1).tolist(), mask.reshape(-1).tolist())]
        return (str(data.dtype) if data.dtype.kind != "U" else "str", tuple(a.shape), vals,
                mask.reshape(-1).tolist())
    a = np.asarray(a)
    return (str(a.dtype) if a.dtype.kind not in "UO" else "str", tuple(a.shape),
            [_scalar(v) for v in a.reshape(-1).tolist()], None)


def _scalar(v):
    if isinstance(v, float):
        if v != v:
            return "nan"
        return float(v).hex()
    return v


def placeholder_like(value, shape=None, dtype: str | None = None):
    """A lazy array for `value` (numpy / masked); `shape` overrides the declared dims."""
    if dtype is None:
        dtype = dtname(ndx.asarray(value).dtype)
    if shape is None:
        shape = tuple(np.shape(value))
    return ndx.array(shape=tuple(shape), dtype=dt(dtype))


def feed(name: str, value, dtype: str) -> dict:
    """Disassemble an input into the flat tensors the exported model expects."""
    if is_nullable(dtype):
        value = np.ma.masked_array(value) if not isinstance(value, np.ma.MaskedArray) else value
        mask = np.array(np.broadcast_to(np.ma.getmaskarray(value), value.shape), dtype=bool).reshape(value.shape)
        data = np.asarray(value.data)
        if dtype == "nutf8":
            data = data.astype(object)
        return {f"{name}_values": data, f"{name}_null": mask}
    v = np.asarray(value)
    if dtype == "utf8":
        v = v.astype(object)
    return {name: v}


def session(model, optimise: bool = True) -> ort.InferenceSession:
    so = ort.SessionOptions()
    if not optimise:
        so.graph_optimization_level = ort.GraphOptimizationLevel.ORT_DISABLE_ALL
    so.intra_op_num_threads = 1
    so.inter_op_num_threads = 1
    so.log_severity_level = 4
    return ort.InferenceSession(model.SerializeToString(), so)


class Malformed:
    """An output whose fields do not fit together (e.g. null mask of another shape than the values)."""
    def __init__(self, what, **info):
        self.what, self.info = what, info
        self.shape = info.get("values_shape", ())

    def __repr__(self):
        return f"Malformed({self.what}, {self.info})"


def collect(outs: dict, name: str, arr) -> np.ndarray:
    """Reassemble output `name` of dtype `arr.dtype` from a session's flat outputs."""
    d = arr.dtype
    if isinstance(d, ndx.Nullable):
        vals = outs[f"{name}_values"]
        null = outs[f"{name}_null"]
        if vals.dtype.kind == "O":
            vals = vals.astype(str)
        if tuple(null.shape) != tuple(vals.shape):
            return Malformed("null-field-shape-differs-from-values", values_shape=tuple(vals.shape),
                             null_shape=tuple(null.shape))
        return np.ma.masked_array(vals, mask=null)
    v = outs[name]
    if v.dtype.kind == "O":
        v = v.astype(str)
    return v


def run_model(model, feeds: dict, out_arrays: dict) -> dict:
    sess = session(model)
    names = [o.name for o in sess.get_outputs()]
    res = dict(zip(names, sess.run(None, feeds)))
    return {n: collect(res, n, a) for n, a in out_arrays.items()}
