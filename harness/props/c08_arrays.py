"""C08, array-valued indices: boolean masks (rank <= ndim) and integer index arrays."""
from __future__ import annotations

import itertools

import numpy as np

from .. import common, impl
from ..impl import ndx
from .c08 import expected_from_positions, np_index, same, shape_tok


def gen(ctx):
    rng = ctx.rng
    quick = ctx.tier == "quick"
    cases = []
    shapes = [()] + [(n,) for n in range(0, 5)] + list(itertools.product(range(1, 4), repeat=2)) + \
        [(2, 0), (0, 2), (2, 3, 2), (1, 2, 3), (3, 1, 1), (2, 2, 0)]
    for shape in shapes:
        r = len(shape)
        for k in range(0, r + 1):
            mshape = shape[:k]
            size = int(np.prod(mshape)) if k else 1
            nmasks = 3 if quick else 8
            seen = set()
            for j in range(nmasks):
                if j == 0:
                    bits = "0" * size
                elif j == 1:
                    bits = "1" * size
                else:
                    bits = "".join(rng.choice("01") for _ in range(size))
                if bits in seen:
                    continue
                seen.add(bits)
                cases.append(("mask", shape, mshape, bits))
        if r >= 1 and shape[0] >= 1:
            n = shape[0]
            for ishape in [(), (0,), (1,), (3,), (2, 2)]:
                size = int(np.prod(ishape)) if len(ishape) else 1
                vals = [rng.randrange(-n, n) for _ in range(size)]
                others = ["int32", "int8", "uint8", "int16", "uint16", "uint32", "uint64"]
                # every integer dtype is an admissible index dtype; the quick tier rotates through the non-default ones
                for idt in (["int64", others[(len(cases) + ctx.seed) % len(others)]] if quick else ["int64"] + others):
                    if idt.startswith("u"):
                        vals2 = [abs(v) % n for v in vals]
                    else:
                        vals2 = vals
                    cases.append(("int", shape, ishape, vals2, idt))
    return cases


def dclass(dtype, shape):
    if dtype in ("utf8", "nutf8"):
        return "string-nd" if len(shape) >= 2 else "string-1d"
    return "nonstring"


def line(case, spec=False):
    suffix = "_spec" if spec else ""
    if case[0] == "mask":
        _, shape, mshape, bits = case
        return f"getitem_mask{suffix} {shape_tok(shape)} {shape_tok(mshape)} {bits or '-'}"
    _, shape, ishape, vals, _ = case
    return f"getitem_int{suffix} {shape_tok(shape)} {shape_tok(ishape)} {','.join(map(str, vals)) or '-'}"


def index_value(case):
    if case[0] == "mask":
        _, shape, mshape, bits = case
        return np.array([b == "1" for b in bits], dtype=bool).reshape(mshape)
    _, shape, ishape, vals, idt = case
    return np.array(vals, dtype=idt).reshape(ishape)


def run(ctx: common.Ctx):
    cases = gen(ctx)
    answers = common.model([line(c) for c in cases] + [line(c, True) for c in cases])
    m_ans, s_ans = answers[:len(cases)], answers[len(cases):]
    dtypes_cycle = ["int64", "nint64", "utf8", "float32", "nutf8", "bool", "uint16", "nfloat32"]
    for ci, case in enumerate(cases):
        if ctx.time_left() < 5:
            ctx.extra["array_index_truncated_at"] = ci
            break
        shape = case[1]
        dtype = dtypes_cycle[(ci + ctx.seed) % len(dtypes_cycle)]
        tok = impl.token_array(shape, dtype, salt=ci)
        iv = index_value(case)
        kind = case[0]
        try:
            np_res = np_index(tok, iv)
        except Exception as e:  # not admissible for NumPy either
            continue
        if m_ans[ci] != s_ans[ci]:
            ctx.corr_broken("lean-model-vs-lean-spec", {"case": str(case), "model": m_ans[ci], "spec": s_ans[ci]})
        try:
            mod_res = expected_from_positions(tok, m_ans[ci])
        except AssertionError:
            mod_res = None
        if mod_res is None or not same(mod_res, np_res):
            # (2,2,0)-like shapes: element count 0, reshape(-1) ambiguity -> shapes still must agree
            ctx.corr_broken("lean-spec-vs-numpy", {"case": str(case), "model": m_ans[ci],
                                                  "numpy": impl.canon(np_res)})
        modes = ["eager", "lazy-x", "lazy-both"] if (ci % 3 == 0 or ctx.tier != "quick") else ["lazy-both"]
        for mode in modes:
            try:
                if mode == "eager":
                    got = ndx.asarray(tok)[ndx.asarray(iv)].to_numpy()
                else:
                    decl = tuple(f"D{j}" for j in range(len(shape))) if ci % 2 else shape
                    x = ndx.array(shape=decl, dtype=impl.dt(dtype))
                    if mode == "lazy-x":
                        out = x[ndx.asarray(iv)]
                        feeds = impl.feed("x", tok, dtype)
                        ins = {"x": x}
                    else:
                        idecl = tuple(f"D{j}" for j in range(iv.ndim)) if (kind == "mask" and ci % 2) else iv.shape
                        i = ndx.array(shape=idecl, dtype=impl.dt(str(iv.dtype)))
                        out = x[i]
                        feeds = {**impl.feed("x", tok, dtype), "i": iv}
                        ins = {"x": x, "i": i}
                    mp = ndx.build(ins, {"o": out})
                    got = impl.run_model(mp, feeds, {"o": out})["o"]
            except Exception as e:
                ctx.case((case[0], shape, str(case[2:]), mode), True)
                zt = "zero-extent-" if (0 in shape) else ""
                ctx.violation(f"getitem/{kind}-array/{dclass(dtype, shape)}/{zt}raises",
                              f"x[{kind} array] on shape {shape} ({dtype}, {mode}) raised {type(e).__name__}",
                              {"case": str(case), "dtype": dtype, "mode": mode,
                               "error": f"{type(e).__name__}: {str(e)[:300]}",
                               "expected_numpy": impl.canon(np_res)})
                continue
            ctx.case((case[0], shape, str(case[2:]), mode), True,
                     {"kind": kind, "shape": shape, "index": iv.tolist(), "dtype": dtype, "mode": mode})
            ctx.count(f"array-index:{kind}:{mode}")
            if not same(got, np_res):
                ctx.violation(f"getitem/{kind}-array/{dclass(dtype, shape)}/wrong-values",
                              f"x[{kind} array] on shape {shape} ({dtype}, {mode}) differs from NumPy",
                              {"case": str(case), "dtype": dtype, "mode": mode,
                               "observed": impl.canon(got), "expected_numpy": impl.canon(np_res)})
            elif mod_res is not None and not same(got, mod_res):
                ctx.corr_broken("getitem-array-impl-vs-model", {"case": str(case), "mode": mode})
