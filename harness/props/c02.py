"""C02 — element-wise functions and operators return the values the Array API specifies.

Value-level sweep against NumPy: exhaustive for bool and 8-bit integer domains (all 256 values for unary,
all 65 536 pairs for binary functions in one tensor), boundary-stratified for wider integers, grids with
special values for floats; eager, and traced for a rotating subset.  Exact for booleans/integers, 4 ulp in
the operand's own precision for floats.  Plus totality on the domain (function x dtype matrix, shared with
C03/C17) and broadcasting.  Lean: Props/C02.lean (integer semantics: two's-complement routing lemmas,
floor/sign conventions)."""
from __future__ import annotations

import itertools
import warnings

import numpy as np

from .. import common, fntable, gen, impl, tables
from ..catalog import CLASSES

INT_BOUNDS = {b: (np.iinfo(b).min, np.iinfo(b).max) for b in impl.INTS}


def int_values(dtype, exhaustive8=True):
    lo, hi = INT_BOUNDS[dtype]
    if np.dtype(dtype).itemsize == 1 and exhaustive8:
        return np.arange(lo, hi + 1, dtype=np.int64).astype(dtype)
    base = {0, 1, 2, 3, 5, 7, 10, 100, 127, 128, 255, 256, 1000, 32767, 32768, 65535, 65536, 2 ** 31 - 1, 2 ** 31,
            2 ** 32 - 1, 2 ** 32, 2 ** 53, 2 ** 53 + 1, 2 ** 62, 2 ** 63 - 1, 2 ** 63, 2 ** 64 - 1, hi, hi - 1, hi // 2, hi // 3}
    vals = set()
    for v in base:
        for w in (v, -v, -v - 1):
            if lo <= w <= hi:
                vals.add(w)
    vals.add(lo)
    return np.array(sorted(vals), dtype=object).astype(dtype)


def float_values(dtype):
    fi = np.finfo(dtype)
    vals = [0.0, -0.0, 0.5, -0.5, 1.0, -1.0, 1.5, -1.5, 2.5, -2.5, 3.5, 0.1, -0.1, 0.25, 1e-3, 7.0, -7.0, 10.0, 100.5, 1e5, -1e5,
            np.pi, -np.pi, np.e, 0.99, -0.99, 1e-8, 20.0, -20.0, 88.0, 700.0, float(fi.max), float(fi.min), float(fi.tiny), float(fi.eps),
            np.inf, -np.inf, np.nan, 1e10, 3.0, -3.0, 4.0, 9.0, 0.75, 123456.789]
    with warnings.catch_warnings():
        warnings.simplefilter("ignore")
        return np.array(vals, dtype=dtype)


def ulp_close(a, b, ulps=4):
    """a: got, b: reference (same float dtype)."""
    a = np.asarray(a); b = np.asarray(b)
    with np.errstate(all="ignore"):
        eq = (a == b) | (np.isnan(a) & np.isnan(b))
        fin = np.isfinite(a) & np.isfinite(b)
        tol = ulps * np.spacing(np.maximum(np.abs(a), np.abs(b)).astype(a.dtype))
        ok = eq | (fin & (np.abs(a - b) <= tol))
    return ok


NP_UNARY = {"abs": np.abs, "negative": np.negative, "positive": np.positive, "sign": np.sign, "square": np.square,
            "ceil": np.ceil, "floor": np.floor, "round": np.round, "trunc": np.trunc,
            "acos": np.arccos, "acosh": np.arccosh, "asin": np.arcsin, "asinh": np.arcsinh, "atan": np.arctan,
            "atanh": np.arctanh, "cos": np.cos, "cosh": np.cosh, "exp": np.exp, "expm1": np.expm1, "log": np.log,
            "log1p": np.log1p, "log2": np.log2, "log10": np.log10, "sin": np.sin, "sinh": np.sinh, "sqrt": np.sqrt,
            "tan": np.tan, "tanh": np.tanh, "isfinite": np.isfinite, "isinf": np.isinf, "isnan": np.isnan,
            "logical_not": np.logical_not, "bitwise_invert": np.invert}
NP_BINARY = {"add": np.add, "subtract": np.subtract, "multiply": np.multiply, "divide": np.divide,
             "floor_divide": np.floor_divide, "remainder": np.remainder, "pow": np.power, "atan2": np.arctan2,
             "logaddexp": np.logaddexp, "equal": np.equal, "not_equal": np.not_equal, "less": np.less,
             "less_equal": np.less_equal, "greater": np.greater, "greater_equal": np.greater_equal,
             "logical_and": np.logical_and, "logical_or": np.logical_or, "logical_xor": np.logical_xor,
             "bitwise_and": np.bitwise_and, "bitwise_or": np.bitwise_or, "bitwise_xor": np.bitwise_xor,
             "bitwise_left_shift": np.left_shift, "bitwise_right_shift": np.right_shift}


def domain(fn, dtype):
    """Is (fn, dtype) inside the standard's domain?"""
    isf, isi, isb = dtype in impl.FLOATS, dtype in impl.INTS, dtype == "bool"
    for c, fns in CLASSES.items():
        if fn in fns:
            cls = c
    return {"arith": isf or isi, "addStr": isf or isi, "arithF": isf, "equality": True, "ordering": isf or isi,
            "logical": isb, "bitwise": isi or isb, "shift": isi, "unaryNum": isf or isi, "unaryFloat": isf,
            "predicate": isf or isi, "logicalNot": isb, "bitInvert": isi or isb}[cls]


def job_unary(job):
    fn, dtype, lazy = job
    ndx = impl.ndx
    x = int_values(dtype) if dtype in impl.INTS else (np.array([False, True]) if dtype == "bool" else float_values(dtype))
    with np.errstate(all="ignore"), warnings.catch_warnings():
        warnings.simplefilter("ignore")
        ref = NP_UNARY[fn](x)
    try:
        if lazy:
            a = ndx.array(shape=("N",), dtype=impl.dt(dtype))
            out = getattr(ndx, fn)(a)
            got = impl.run_model(ndx.build({"a": a}, {"o": out}), {"a": x}, {"o": out})["o"]
        else:
            got = getattr(ndx, fn)(ndx.asarray(x)).to_numpy()
    except Exception as e:
        return {"error": f"{type(e).__name__}: {str(e)[:200]}"}
    return compare(fn, dtype, [x], ref, got)


def compare(fn, dtype, xs, ref, got):
    if str(got.dtype) != str(ref.dtype):
        return {"bad": "dtype", "got": str(got.dtype), "want": str(ref.dtype)}
    if got.shape != ref.shape:
        return {"bad": "shape", "got": list(got.shape), "want": list(ref.shape)}
    if ref.dtype.kind == "f":
        ok = ulp_close(got, ref)
        if fn == "floor_divide":
            # the standard leaves the rounding of x1/x2 before the floor to the implementation:
            # NumPy/Python use the exact quotient (0.5 // 0.1 = 4), floor(fl(x1/x2)) = 5 is also admissible
            with np.errstate(all="ignore"):
                alt = np.floor(np.broadcast_to(xs[0], ref.shape) / np.broadcast_to(xs[1], ref.shape)).astype(ref.dtype)
            ok = ok | ulp_close(got, alt)
    else:
        ok = got == ref
    if ok.all():
        return {"n": int(ref.size)}
    idx = np.argwhere(~ok)
    ex = []
    for i in idx[:4]:
        i = tuple(i)
        ins = [x[i] if x.shape == ref.shape else np.broadcast_to(x, ref.shape)[i] for x in xs]
        ex.append({"in": [repr(v.item() if hasattr(v, "item") else v) for v in ins], "got": repr(got[i].item()), "want": repr(ref[i].item())})
    # classify the failing region for finding keys
    bad_in = [np.broadcast_to(x, ref.shape)[~ok] for x in xs]
    region = classify(fn, dtype, bad_in, got[~ok], ref[~ok])
    return {"bad": "values", "n_bad": int((~ok).sum()), "n": int(ref.size), "examples": ex, "region": region}


def classify(fn, dtype, bad_in, got, ref):
    """A coarse description of *where* the function is wrong, used in finding keys."""
    tags = set()
    with np.errstate(all="ignore"):
        if ref.dtype.kind == "f":
            refn, gotn = np.isnan(ref), np.isnan(got)
            if (refn != gotn).any():
                tags.add("nan-handling")
            fin = np.isfinite(ref) & np.isfinite(got)
            if fin.any():
                rel = np.abs(got[fin].astype(np.float64) - ref[fin].astype(np.float64)) / np.maximum(np.abs(ref[fin].astype(np.float64)), 1e-300)
                if (rel > 1e-3).any():
                    tags.add("wrong-value")
                elif dtype == "float64" and (rel > 1e-12).any():
                    tags.add("float32-precision")
                else:
                    tags.add("ulp")
            if (np.isinf(ref) != np.isinf(got)).any():
                tags.add("inf-handling")
        else:
            tags.add("wrong-value")
            if all(x.dtype.kind in "iu" for x in bad_in):
                big = any((np.abs(x.astype(object)) > 2 ** 24).any() for x in bad_in)
                small = any((np.abs(x.astype(object)) <= 2 ** 24).all() for x in bad_in) and not big
                tags.add("only-large-magnitudes" if not small and all((np.abs(x.astype(object)) > 2 ** 24).any() for x in [np.concatenate([b.ravel() for b in bad_in])]) and
                         all(((np.abs(bad_in[0].astype(object)) > 2 ** 24) | (np.abs(bad_in[-1].astype(object)) > 2 ** 24)).ravel()) else "also-small-magnitudes")
                if len(bad_in) == 2 and ((bad_in[0].astype(object) < 0) != (bad_in[1].astype(object) < 0)).all():
                    tags.add("mixed-signs-only")
    return "+".join(sorted(tags))


def job_binary(job):
    fn, dtype, lazy = job
    ndx = impl.ndx
    if dtype in impl.INTS:
        v = int_values(dtype)
        x, y = v[:, None], v[None, :]
        if fn in ("floor_divide", "remainder", "divide"):
            y = y[:, y[0] != 0]
        if fn == "pow":
            y = y[:, (y[0] >= 0) & (y[0] <= 64)]
        if fn in ("bitwise_left_shift", "bitwise_right_shift"):
            bits = np.dtype(dtype).itemsize * 8
            y = np.arange(0, bits, dtype=dtype)[None, :]
    elif dtype == "bool":
        x, y = np.array([False, True])[:, None], np.array([False, True])[None, :]
    else:
        v = float_values(dtype)
        x, y = v[:, None], v[None, :]
    with np.errstate(all="ignore"), warnings.catch_warnings():
        warnings.simplefilter("ignore")
        ref = NP_BINARY[fn](x, y)
    try:
        if lazy:
            a = ndx.array(shape=("N", 1), dtype=impl.dt(dtype))
            b = ndx.array(shape=(1, "M"), dtype=impl.dt(dtype))
            out = getattr(ndx, fn)(a, b)
            got = impl.run_model(ndx.build({"a": a, "b": b}, {"o": out}), {"a": x, "b": y}, {"o": out})["o"]
        else:
            got = getattr(ndx, fn)(ndx.asarray(x), ndx.asarray(y)).to_numpy()
    except Exception as e:
        return {"error": f"{type(e).__name__}: {str(e)[:200]}"}
    return compare(fn, dtype, [x, y], ref, got)


FLOAT_SCALARS = [0.5, 2.0, -1.0, 0.0, 1.0, 3, 2, -2, 0.25, -0.5, 1.5, 10]
INT_SCALARS = [0, 1, 2, 3, 7, -1, -3]
SCALAR_FNS = ["add", "subtract", "multiply", "divide", "floor_divide", "remainder", "pow", "atan2", "logaddexp",
              "equal", "not_equal", "less", "less_equal", "greater", "greater_equal",
              "bitwise_and", "bitwise_or", "bitwise_xor", "bitwise_left_shift", "bitwise_right_shift"]


def job_scalar(job):
    """A Python scalar as one operand (either side): same value as with a same-dtype array operand (C02) — special
    cases of the scalar must not take a different mathematical route (x ** 0.5, x * 1, x + 0, 2 ** x ...)."""
    fn, dtype, sc, left, lazy = job
    ndx = impl.ndx
    isint = dtype in impl.INTS
    x = int_values(dtype, exhaustive8=False) if isint else float_values(dtype)
    if isint and dtype.startswith("u") and sc < 0:
        return {"n": 0}
    if fn in ("floor_divide", "remainder", "divide") and not left and sc == 0 and isint:
        return {"n": 0}
    if fn in ("floor_divide", "remainder", "divide") and left and isint:
        x = x[x != 0]
    if fn in ("bitwise_left_shift", "bitwise_right_shift"):
        if left:
            x = x[(x >= 0) & (x < np.dtype(dtype).itemsize * 8)]
        elif not (0 <= sc < np.dtype(dtype).itemsize * 8):
            return {"n": 0}
    if fn == "pow" and isint:
        if left:
            x = x[(x >= 0) & (x <= 16)]
        elif sc < 0:
            return {"n": 0}
    if not isinstance(sc, int) and isint:
        return {"n": 0}
    # a full array operand: NumPy itself special-cases scalar exponents (x ** 0.5 -> sqrt), the oracle must not
    s_arr = np.full(x.shape, sc).astype(dtype)
    with np.errstate(all="ignore"), warnings.catch_warnings():
        warnings.simplefilter("ignore")
        ref = NP_BINARY[fn](s_arr, x) if left else NP_BINARY[fn](x, s_arr)
    try:
        if lazy:
            a = ndx.array(shape=("N",), dtype=impl.dt(dtype))
            out = getattr(ndx, fn)(sc, a) if left else getattr(ndx, fn)(a, sc)
            got = impl.run_model(ndx.build({"a": a}, {"o": out}), {"a": x}, {"o": out})["o"]
        else:
            a = ndx.asarray(x)
            got = (getattr(ndx, fn)(sc, a) if left else getattr(ndx, fn)(a, sc)).to_numpy()
    except Exception as e:
        return {"error": f"{type(e).__name__}: {str(e)[:200]}"}
    return compare(fn, dtype, [x, s_arr] if not left else [s_arr, x], ref, got)


MODEL_OPS = ["add", "subtract", "multiply", "remainder", "bitwise_left_shift", "bitwise_right_shift"]


def _grid(fn, dtype):
    v = int_values(dtype)
    x, y = v[:, None], v[None, :]
    if fn == "remainder":
        y = y[:, y[0] != 0]
    if fn in ("bitwise_left_shift", "bitwise_right_shift"):
        y = np.arange(0, np.dtype(dtype).itemsize * 8, dtype=dtype)[None, :]
    return x, y


def job_model_tie(job):
    """Implementation's eager result on the grid, flattened as Python ints."""
    fn, dtype = job
    ndx = impl.ndx
    x, y = _grid(fn, dtype)
    try:
        got = getattr(ndx, fn)(ndx.asarray(x), ndx.asarray(y)).to_numpy()
    except Exception as e:
        return {"error": f"{type(e).__name__}: {str(e)[:200]}"}
    xb, yb = np.broadcast_arrays(x, y)
    if got.shape != xb.shape or str(got.dtype) != dtype:
        return {"error": f"shape/dtype {got.shape} {got.dtype}"}
    return {"x": xb.ravel().tolist(), "y": yb.ravel().tolist(), "got": got.ravel().tolist()}


def int_model_tie(ctx, swept_bad=frozenset()):
    """Tie of Model/IntArith.lean (intOpImpl / intOpSpec, theorem intOpImpl_eq_spec) to the code:
    the implementation must compute what `intOpImpl` computes; where it does not, it must at least
    equal `intOpSpec` (then only the algorithm model is stale), otherwise that input is the replay."""
    jobs = [(fn, d) for fn in MODEL_OPS for d in impl.INTS]
    res = tables.pmap(job_model_tie, jobs, chunk=2)
    lines, index = [], []
    for (fn, d), r in tables.pairs(ctx, jobs, res):
        if isinstance(r, tables.Crashed) or "error" in r:
            continue  # reported by the value sweep above
        bits, sg = np.dtype(d).itemsize * 8, ("u" if d.startswith("u") else "s")
        index.append((fn, d, len(lines), r))
        lines.extend(f"intop {fn} {bits} {sg} {a} {b}" for a, b in zip(r["x"], r["y"]))
    outs = common.model(lines)
    n_pairs = stale = specbad = excl = 0
    for fn, d, off, r in index:
        for k, (a, b, g) in enumerate(zip(r["x"], r["y"], r["got"])):
            mi, ms = outs[off + k].split()
            n_pairs += 1
            if mi == "~":
                raise common.Infra(f"model refuses in-domain input: {lines[off + k]}")
            if mi != ms:
                excl += 1  # the theorem's excluded region (negative int64 >> s)
            if str(g) == mi:
                continue
            if str(g) == ms:
                stale += 1
                if stale <= 3:
                    ctx.extra.setdefault("algorithm_model_stale", []).append({"line": lines[off + k], "implementation": g, "model_impl": mi})
                continue
            specbad += 1
            if (fn, d) in swept_bad:
                continue  # the value sweep against NumPy already reported this (function, dtype) with its region key
            ctx.violation(f"{fn}/{d}/differs-from-algorithm-model-and-specification",
                          f"{fn}({a}, {b}) on {d} = {g}; Lean intOpImpl = {mi}, intOpSpec = {ms}",
                          {"function": fn, "dtype": d, "inputs": [a, b], "got": g, "model_impl": mi, "spec": ms,
                           "theorem": "Ndx.C02.intOpImpl_eq_spec"})
    ctx.count("int-model-tie-pairs", n_pairs)
    ctx.extra["int_model_tie"] = {"pairs": n_pairs, "ops": MODEL_OPS, "dtypes": impl.INTS, "implementation_equals_spec_but_not_algorithm_model": stale,
                                  "model_impl_differs_from_spec(the theorem's excluded region)": excl}
    if stale and not specbad:
        ctx.corr_broken("int-algorithm-model", {"theorem": "Ndx.C02.intOpImpl_eq_spec", "pairs_where_code_departs_from_intOpImpl": stale,
                                                "note": "the implementation equals intOpSpec on all of them"})


G_UNARY = ["abs", "negative", "positive", "sign", "square", "bitwise_invert", "ceil", "floor", "round", "trunc", "logical_not"]
G_BINARY = ["add", "subtract", "multiply", "remainder", "bitwise_left_shift", "bitwise_right_shift", "bitwise_and",
            "bitwise_or", "bitwise_xor", "equal", "not_equal", "less", "less_equal", "greater", "greater_equal",
            "logical_and", "logical_or", "logical_xor"]


def job_graph(job):
    """Translate the exported graph of fn at dtype (symbolic size) and evaluate fn eagerly on the grid."""
    from .. import graphterm
    fn, dtype = job
    ndx = impl.ndx
    unary = fn in G_UNARY
    try:
        a = ndx.array(shape=("N",), dtype=impl.dt(dtype))
        b = ndx.array(shape=("N",), dtype=impl.dt(dtype))
        out = getattr(ndx, fn)(a) if unary else getattr(ndx, fn)(a, b)
        model = ndx.build({"a": a} if unary else {"a": a, "b": b}, {"o": out})
        term = graphterm.sexpr(model)
    except Exception as e:
        return {"unsupported": f"{type(e).__name__}"}
    if dtype == "bool":
        v = np.array([False, True])
        x, y = (v, None) if unary else (v[:, None], v[None, :])
    elif unary:
        x, y = int_values(dtype), None
    else:
        x, y = _grid(fn, dtype)
    try:
        got = (getattr(ndx, fn)(ndx.asarray(x)) if unary else getattr(ndx, fn)(ndx.asarray(x), ndx.asarray(y))).to_numpy()
    except Exception as e:
        return {"term": term, "error": f"{type(e).__name__}: {str(e)[:200]}"}
    if unary:
        return {"term": term, "x": x.ravel().tolist(), "got": got.ravel().tolist()}
    xb, yb = np.broadcast_arrays(x, y)
    if got.shape != xb.shape:
        return {"term": term, "error": f"shape {got.shape}"}
    return {"term": term, "x": xb.ravel().tolist(), "y": yb.ravel().tolist(), "got": got.ravel().tolist()}


def graph_tie(ctx, swept_bad=frozenset()):
    """Tie B: the graph the library exports for (fn, dtype) must be one of the terms `Ndx.Graph.gterms`
    accepts (theorems `*_graph_correct` in Props/C02Graph.lean cover every operand of those terms);
    and the Lean `eval` of that term must agree with what the implementation (onnxruntime) returns on the
    grid, which validates the model's reading of the ONNX operators."""
    jobs = [(fn, d) for fn in G_UNARY + G_BINARY for d in impl.INTS + ["bool"]]
    res = tables.pmap(job_graph, jobs, chunk=2)
    accepted = common.model([f"gterm {fn} {d}" for fn, d in jobs])
    lines, index = [], []
    stats = {"pairs": len(jobs), "modelled": 0, "matched": 0, "unsupported_by_library": 0, "not_modelled": [], "mismatched": []}
    for ((fn, d), r), acc in zip(zip(jobs, res), accepted):
        if isinstance(r, (tables.Crashed, tables.WorkerError)):
            continue
        if "unsupported" in r:
            stats["unsupported_by_library"] += 1
            if acc != "~":
                ctx.corr_broken(f"graph-term/{fn}/{d}", {"model": "has terms", "library": r["unsupported"]})
            continue
        if acc == "~":
            stats["not_modelled"].append(f"{fn}/{d}")
            continue
        stats["modelled"] += 1
        terms = acc.split(" || ")
        ctx.case(("graph", fn, d), True, {"function": fn, "dtype": d, "exported_graph": r["term"]} if stats["modelled"] <= 3 else None)
        if r["term"] not in terms:
            stats["mismatched"].append(f"{fn}/{d}")
            ctx.corr_broken(f"graph-term/{fn}/{d}", {"exported_graph": r["term"], "accepted_terms": terms[:4],
                                                      "theorem": f"Ndx.Graph.*_graph_correct ({fn})"})
            continue
        stats["matched"] += 1
        if "error" in r:
            continue
        k = terms.index(r["term"])
        index.append((fn, d, len(lines), r))
        if "y" in r:
            lines.extend(f"geval {fn} {d} {k} {a} {b}" for a, b in zip(r["x"], r["y"]))
        else:
            lines.extend(f"geval {fn} {d} {k} {a}" for a in r["x"])
    outs = common.model(lines)
    n = undefined = differ = 0
    differ_by = {}
    for fn, d, off, r in index:
        for j, g in enumerate(r["got"]):
            m = outs[off + j]
            n += 1
            if m == "~":
                undefined += 1  # outside the operator's modelled domain
                continue
            if str(g) != m:
                differ += 1
                differ_by[f"{fn}/{d}"] = differ_by.get(f"{fn}/{d}", 0) + 1
                if (fn, d) in swept_bad:
                    continue  # same inputs already reported by the NumPy sweep under their region key
                ctx.violation(f"{fn}/{d}/onnxruntime-differs-from-graph-semantics",
                              f"{lines[off + j]}: implementation = {g}, Lean eval of the exported graph = {m}",
                              {"function": fn, "dtype": d, "line": lines[off + j], "got": g, "model": m})
    stats.update({"graph_evaluations_compared": n, "outside_modelled_operator_domain": undefined, "differ": differ,
                  "differ_by_function_dtype(all inside recorded findings of the NumPy sweep)": differ_by})
    ctx.count("graph-tie-evaluations", n)
    ctx.extra["graph_tie"] = stats


def run(ctx: common.Ctx):
    ctx.extra["rule"] = (
        "every element-wise function x every dtype of its standard domain: unary on all values of the 8-bit/bool "
        "domains, boundary sets of wider integers and a 45-value float grid with NaN/inf/-0.0/extremes; binary on the "
        "full cross product of those sets (65 536 pairs for 8-bit) with (N,1)x(1,M) broadcasting; eager for all, traced "
        "with symbolic dims for a rotating third (all in thorough); compared with NumPy exactly (bool/int) or within 4 "
        "ulp; distinct = distinct (function, dtype, mode) tensors; non-trivial = all; evaluations counts element results")
    quick = ctx.tier == "quick"
    jobs = []
    k = 0
    for fn in NP_UNARY:
        for d in impl.INTS + impl.FLOATS + ["bool"]:
            if domain(fn, d):
                jobs.append(("u", fn, d, False))
                k += 1
                if not quick or (k + ctx.seed) % 3 == 0:
                    jobs.append(("u", fn, d, True))
    for fn in NP_BINARY:
        for d in impl.INTS + impl.FLOATS + ["bool"]:
            if domain(fn, d):
                jobs.append(("b", fn, d, False))
                k += 1
                if not quick or (k + ctx.seed) % 3 == 0:
                    jobs.append(("b", fn, d, True))
    swept_bad = set()
    # Python-scalar operands (rotating sample in quick)
    sj = []
    for fn in SCALAR_FNS:
        for d in impl.INTS + impl.FLOATS:
            if not domain(fn, d):
                continue
            for sc in (INT_SCALARS if d in impl.INTS else FLOAT_SCALARS):
                for left in (False, True):
                    sj.append(("s", fn, d, sc, left, False))
    if quick:
        sj = [j for i, j in enumerate(sj) if (i + ctx.seed) % 4 == 0 or (j[1] == "pow" and not j[4])]
        sj += [("s", fn, d, sc, left, True) for (_, fn, d, sc, left, _) in sj[:: 9]]
    else:
        sj += [("s", fn, d, sc, left, True) for (_, fn, d, sc, left, _) in sj]
    njobs = len(jobs)
    jobs = jobs + sj
    res = tables.pmap(_dispatch, jobs, chunk=8)
    sres = res[njobs:]
    jobs, res = jobs[:njobs], res[:njobs]
    for job, r in tables.pairs(ctx, sj, sres):
        _, fn, d, sc, left, lazy = job
        mode = "traced" if lazy else "eager"
        if isinstance(r, tables.Crashed):
            ctx.violation(f"{fn}/{d}/scalar-operand/interpreter-crash", f"{fn}({d}, scalar {sc!r}) {mode}: worker died", {"job": repr(job)})
            continue
        if not r.get("n") and "error" not in r and "bad" not in r:
            continue
        ctx.case((fn, d, "scalar", repr(sc), left, mode), True)
        ctx.count("mode:scalar-operand")
        form = f"{fn}({sc!r}, {d})" if left else f"{fn}({d}, {sc!r})"
        if "error" in r:
            ctx.violation(f"{fn}/{d}/scalar-operand/raises", f"{form} ({mode}) raised {r['error']}", {"function": fn, "dtype": d, "scalar": repr(sc), "left": left, "mode": mode, "error": r["error"]})
        elif "bad" in r:
            swept_bad.add((fn, d))
            ctx.violation(f"{fn}/{d}/{r.get('region', r['bad'])}",
                          f"{form} ({mode}): {r['bad']} differ from the same operation with an array operand in NumPy; e.g. {r.get('examples', r)}"[:600],
                          {"function": fn, "dtype": d, "scalar": repr(sc), "left": left, "mode": mode, **r})
    elements = 0
    for (kind, fn, d, lazy), r in tables.pairs(ctx, jobs, res):
        mode = "traced" if lazy else "eager"
        ctx.case((fn, d, mode), True, {"function": fn, "dtype": d, "mode": mode, "elements": r.get("n")} if len(ctx.samples) < 6 else None)
        ctx.count(f"mode:{mode}")
        if isinstance(r, tables.Crashed):
            ctx.violation(f"{fn}/{d}/interpreter-crash", f"{fn}({d}) {mode}: worker died", {"function": fn, "dtype": d})
            continue
        elements += r.get("n", 0)
        if "error" in r:
            ctx.violation(f"{fn}/{d}/raises", f"{fn} on {d} ({mode}) raised {r['error']}",
                          {"function": fn, "dtype": d, "mode": mode, "error": r["error"]})
        elif "bad" in r:
            swept_bad.add((fn, d))
            region = r.get("region", r["bad"])
            ctx.violation(f"{fn}/{d}/{region}",
                          f"{fn} on {d} ({mode}): {r['bad']} differ from NumPy ({r.get('n_bad', '')} of {r.get('n', '')}); e.g. {r.get('examples', r)}"[:600],
                          {"function": fn, "dtype": d, "mode": mode, **r})
    ctx.extra["element_results_compared"] = elements
    int_model_tie(ctx, frozenset(swept_bad))
    graph_tie(ctx, frozenset(swept_bad))
    # totality on the domain: shared function x dtype matrix
    js, outs, laws = fntable.dump(ctx)
    table = fntable.evaluate(ctx, js, outs, laws, {"C02"})
    mods = fntable.write_gen(table)
    gen.check_generated(ctx, mods)


def _dispatch(job):
    if job[0] == "s":
        return job_scalar(job[1:])
    return job_unary(job[1:]) if job[0] == "u" else job_binary(job[1:])
