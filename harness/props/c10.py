"""C10 — reductions and statistics honour axis, keepdims, dtype and empty inputs.

Sweep vs NumPy: sum, prod, min, max, mean, var, std, all, any, cumulative_sum, argmax, argmin and the
Array methods, over ranks 0..3 x extents {0,1,2,3} x axis in {None} U [-ndim, ndim) U tuples (incl. the
empty tuple) x keepdims, eager and traced with symbolic dims; result shapes are additionally compared
with the Lean model `Ndx.reduceShapeModel` (proved equal to NumPy's rule for every rank/shape/axis in
Props/C10.lean)."""
from __future__ import annotations

import itertools
import random
import warnings

import numpy as np

from .. import common, impl, tables

FUNCS = ["sum", "prod", "min", "max", "mean", "var", "std", "all", "any", "cumulative_sum", "argmax", "argmin"]
METHODS = ["sum", "prod", "min", "max", "all", "any"]


def axis_choices(r):
    out = [None] + list(range(-r, r))
    for k in (0, 2, 3):
        for c in itertools.combinations(range(r), k):
            out.append(tuple(c))
            if k and c:
                out.append(tuple(a - r for a in c))
    return out


def np_ref(fn, x, axis, keepdims, extra):
    with np.errstate(all="ignore"), warnings.catch_warnings():
        warnings.simplefilter("ignore")
        if fn in ("sum", "prod"):
            if extra.get("dtype"):
                return getattr(np, fn)(x, axis=axis, keepdims=keepdims, dtype=extra["dtype"])
            return getattr(np, fn)(x, axis=axis, keepdims=keepdims)
        if fn in ("min", "max"):
            return getattr(np, fn)(x, axis=axis, keepdims=keepdims)
        if fn == "mean":
            return np.mean(x, axis=axis, keepdims=keepdims)
        if fn in ("var", "std"):
            return getattr(np, fn)(x, axis=axis, keepdims=keepdims, ddof=extra.get("correction", 0))
        if fn in ("all", "any"):
            return getattr(np, fn)(x, axis=axis, keepdims=keepdims)
        if fn == "cumulative_sum":
            return np.cumulative_sum(x, axis=axis, include_initial=extra.get("include_initial", False),
                                     **({"dtype": extra["dtype"]} if extra.get("dtype") else {}))
        if fn in ("argmax", "argmin"):
            return getattr(np, fn)(x, axis=axis, keepdims=keepdims)
    raise KeyError(fn)


def worker(job):
    from .. import sweep
    ndx = impl.ndx
    fn, form, dtype, shape, axis, keepdims, extra, seed = job
    rng = np.random.default_rng(seed)
    size = int(np.prod(shape)) if shape else 1
    if dtype == "bool":
        x = rng.integers(0, 2, size=size).astype(bool).reshape(shape)
    elif dtype in impl.FLOATS:
        x = (rng.integers(-6, 7, size=size) * 0.5).astype(dtype).reshape(shape)
    else:
        x = rng.integers(0 if dtype.startswith("u") else -3, 5, size=size).astype(dtype).reshape(shape)
    acc = extra.get("dtype")
    if acc and size:
        # data on which casting each element first differs from casting the combined result
        if dtype in impl.FLOATS and acc.startswith("int"):
            x = (rng.integers(0, 4, size=size) + 0.5).astype(dtype).reshape(shape)
        elif dtype == "float32" and acc == "float64" and fn != "prod":
            x = rng.choice(np.array([16777216.0, 1.0, 1.0], dtype=dtype), size=size).reshape(shape)
        elif dtype in ("int64", "int32", "uint32") and acc == "float32" and fn != "prod":
            x = rng.choice(np.array([16777217, 1, 3], dtype=dtype), size=size).reshape(shape)
    try:
        ref = np_ref(fn, x, axis, keepdims, extra)
    except Exception as e:
        return {"skip": f"numpy: {type(e).__name__}"}      # e.g. min of an empty array: NumPy refuses
    ref = np.asarray(ref)

    def call(a):
        if form == "method":
            return getattr(a, fn)(axis=axis, keepdims=keepdims)
        kw = {"axis": axis}
        if fn != "cumulative_sum":
            kw["keepdims"] = keepdims
        kw.update(extra)
        if kw.get("dtype"):
            kw["dtype"] = impl.dt(kw["dtype"])
        return getattr(ndx, fn)(a, **kw)
    res = sweep.run_case(call, [x], [dtype])
    out = {"ref_shape": list(ref.shape), "ref_dtype": str(ref.dtype), "fail": []}
    for mode, got in res.items():
        if sweep.is_error(got):
            out["fail"].append((mode, "raises", got[1]))
            continue
        if tuple(got.shape) != tuple(ref.shape):
            out["fail"].append((mode, "shape", f"{list(got.shape)} != numpy {list(ref.shape)}"))
            continue
        # dtype: accumulator rule
        want_dt = str(ref.dtype)
        if extra.get("dtype"):
            pass                 # an explicit dtype= is the result dtype, whatever the input
        elif fn in ("sum", "prod", "cumulative_sum") and dtype.startswith("uint"):
            want_dt = None       # documented unsigned deviation: checked against the library's own rule below
        if fn in ("mean", "var", "std") and dtype not in impl.FLOATS:
            want_dt = None       # outside the standard's domain
        if want_dt is not None and str(got.dtype) != want_dt:
            out["fail"].append((mode, "dtype", f"{got.dtype} != numpy {want_dt}"))
            continue
        if want_dt is None and fn in ("sum", "prod", "cumulative_sum") and str(got.dtype) not in ("uint64", "uint32", "int64"):
            out["fail"].append((mode, "dtype", f"{got.dtype} for unsigned input {dtype}"))
            continue
        g = got.astype(ref.dtype) if want_dt is None else got
        if ref.dtype.kind == "f":
            from .c02 import ulp_close
            ok = ulp_close(g, ref, 8 if fn in ("var", "std", "mean") else 4)
        else:
            ok = g == ref
        if not np.all(ok):
            i = tuple(np.argwhere(~np.asarray(ok))[0]) if np.ndim(ok) else ()
            out["fail"].append((mode, "values", f"got {np.asarray(g)[i]!r}, numpy {ref[i]!r} at {list(i)}; input {x.tolist()}"[:300]))
    return out


def run(ctx: common.Ctx):
    ctx.extra["rule"] = (
        "12 reductions + 6 Array methods x dtypes of their domain x shapes of rank 0..3 with extents in {0,1,2,3} x "
        "axis in {None} U [-ndim,ndim) U tuples of size 0/2/3 (positive and negative spelling) x keepdims (x correction / "
        "include_initial); quick samples ~1300 combinations, thorough ~20000; eager and traced (symbolic dims) vs NumPy; "
        "distinct = distinct argument tuples; non-trivial = axis is not None or rank > 1 or an extent is 0")
    rng = ctx.rng
    quick = ctx.tier == "quick"
    shapes = [()] + [s for r in (1, 2, 3) for s in itertools.product([0, 1, 2, 3], repeat=r)]
    jobs = []
    for fn in FUNCS:
        dts = {"all": ["bool", "int32", "float64"], "any": ["bool", "int8", "float32"],
               "mean": ["float64", "float32", "int32"], "var": ["float64", "float32"], "std": ["float64", "float32"],
               "prod": ["int64", "int32", "float32", "uint8", "float64"],
               "argmax": ["int64", "float32", "int8", "uint16", "float64"], "argmin": ["int32", "float64", "uint8"],
               }.get(fn, ["int64", "float64", "int8", "uint8", "float32", "uint32", "int16"])
        combos = []
        for shape in shapes:
            r = len(shape)
            for axis in axis_choices(r):
                if fn in ("argmax", "argmin", "cumulative_sum") and isinstance(axis, tuple):
                    continue
                if fn == "cumulative_sum" and axis is None and r != 1:
                    continue
                for keepdims in ((False, True) if fn != "cumulative_sum" else (False,)):
                    combos.append((shape, axis, keepdims))
        sel = rng.sample(combos, min(len(combos), 90 if quick else 1500))
        # always include the edge combinations
        sel += [c for c in combos if c[0] in ((), (0,), (2, 0), (0, 3)) and c not in sel][: (20 if quick else 200)]
        for k, (shape, axis, keepdims) in enumerate(sel):
            extra = {}
            if fn in ("var", "std"):
                extra = {"correction": rng.choice([0, 1, 0.5])}
            if fn == "cumulative_sum":
                extra = {"include_initial": rng.random() < 0.5}
            if fn in ("sum", "prod", "cumulative_sum") and rng.random() < 0.45:
                # explicit accumulator: the elements are cast *before* they are combined (halves into integers,
                # integers into a narrower type, float32 into float64)
                d0 = dts[k % len(dts)]
                extra = {**extra, "dtype": rng.choice(["int64", "int32", "int64", "int16", "float64", "float32"] if d0 in impl.FLOATS
                                                      else ["float32", "float64", "int64", "int16"])}
            jobs.append((fn, "function", dts[k % len(dts)], shape, axis, keepdims, extra, ctx.seed * 7919 + k))
    for fn in METHODS:
        for k in range(25 if quick else 300):
            shape = rng.choice(shapes)
            r = len(shape)
            axis = rng.choice([None] + list(range(-r, r)))
            jobs.append((fn, "method", "bool" if fn in ("all", "any") else rng.choice(["int64", "float64"]), shape, axis,
                         rng.random() < 0.5, {}, ctx.seed * 31 + k))
    res = tables.pmap(worker, jobs, chunk=16)
    from .. import reducetie
    seen = set()
    combos = [c for c in ((tuple(j[3]), j[4], j[5]) for j in jobs if j[0] == "sum" and j[1] == "function") if not (c in seen or seen.add(c))]
    reducetie.run(ctx, combos)
    # Lean model of the result shape
    lines = []
    for (fn, form, dtype, shape, axis, keepdims, extra, seed) in jobs:
        ax = "~" if axis is None else ("(" + ",".join(map(str, axis)) + ")" if isinstance(axis, tuple) else str(axis))
        lines.append(f"reduce_shape {','.join(map(str, shape)) or '-'} {ax} {1 if keepdims else 0}")
    model = common.model(lines)
    for (job, m), r in tables.pairs(ctx, list(zip(jobs, model)), res):
        fn, form, dtype, shape, axis, keepdims, extra, seed = job
        if isinstance(r, tables.Crashed):
            ctx.violation(f"{fn}/interpreter-crash", f"{job}: worker died", {"job": repr(job)})
            continue
        if "skip" in r:
            ctx.count("skipped:" + r["skip"])
            continue
        nontriv = axis is not None or len(shape) > 1 or 0 in shape
        ctx.case((fn, form, dtype, shape, axis, keepdims, str(extra)), nontriv,
                 {"function": fn, "form": form, "dtype": dtype, "shape": shape, "axis": axis, "keepdims": keepdims, **extra}
                 if len(ctx.samples) < 8 and nontriv else None)
        ctx.count(f"fn:{fn}")
        if fn not in ("cumulative_sum",):
            mshape = m.split(" spec ")[0].replace("model ", "")
            want = ",".join(map(str, r["ref_shape"])) or "-"
            kd_for_model = keepdims
            if mshape != want and fn not in ("argmax", "argmin"):
                ctx.corr_broken("lean-reduce-shape-vs-numpy", {"job": repr(job), "model": m, "numpy": r["ref_shape"]})
        axcls = "none" if axis is None else ("tuple" if isinstance(axis, tuple) else ("neg" if axis < 0 else "pos"))
        empty = "empty" if 0 in shape else "nonempty"
        for mode, kind, detail in r["fail"]:
            dkey = f"{dtype}->{extra['dtype']}" if extra.get("dtype") else dtype
            key = f"{fn}{'-method' if form == 'method' else ''}/{dkey}/{axcls}-{'keepdims' if keepdims else 'nokeepdims'}-{empty}/{kind}"
            ctx.violation(key, f"{fn}{' method' if form == 'method' else ''}({dtype}{list(shape)}, axis={axis}, keepdims={keepdims}, {extra}) {mode}: {kind}: {detail}",
                          {"function": fn, "form": form, "dtype": dtype, "shape": shape, "axis": axis, "keepdims": keepdims,
                           "extra": extra, "mode": mode, "kind": kind, "detail": detail})

    # graph-level tie (B) and operator-reading tie (D) for the integer / boolean reductions
    # (Props/C10Graph.lean: reduceCore_shape, any_graph_correct, all_graph_correct)
    from .. import tgraph
    tgraph.run_reduce(ctx, 300 if quick else 3000)
    # cumulative_sum at graph level (Model/TGraphScatter.cumsumGraph; Props/C10Cumsum.lean), incl. include_initial through tie D
    from .. import scattertie
    scattertie.run(ctx, 100 if ctx.tier == "quick" else 1200, label="cumsum", kinds=("cumsum", "argext"))
