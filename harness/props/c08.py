"""C08 — indexing reads select exactly the elements NumPy selects.

Correspondence: the Lean model (`Ndx.getitem` on token tensors) vs the implementation (traced with
static and with symbolic extents, and eagerly) vs NumPy, on the same index tuples.  One-axis index
space is enumerated exhaustively for small extents; higher ranks are products sampled from it."""
from __future__ import annotations

import itertools

import numpy as np

from .. import common, impl
from ..impl import ndx

STEPS = [None, 1, -1, 2, -2, 3, -3]


def axis_entries(n: int):
    """All admissible entries for an axis of extent n (the standard's bounds)."""
    out = [("i", k) for k in range(-n, n)]
    for c in STEPS:
        pos = c is None or c > 0
        if pos:
            starts = [None] + list(range(-n, n + 1))
            stops = [None] + list(range(-n, n + 1))
        else:
            starts = [None] + list(range(-n, max(0, n - 1) + 1))
            stops = [None] + list(range(-n - 1, max(0, n - 1) + 1))
        for a in starts:
            for b in stops:
                out.append(("s", a, b, c))
    return out


def to_py(idx):
    res = []
    for e in idx:
        if e == "e":
            res.append(Ellipsis)
        elif e == "n":
            res.append(None)
        elif e == "b":
            res.append(1.5)
        elif e[0] == "i":
            res.append(e[1])
        else:
            res.append(slice(e[1], e[2], e[3]))
    return tuple(res)


def to_tok(idx):
    def o(v):
        return "~" if v is None else str(v)
    res = []
    for e in idx:
        if e in ("e", "n", "b"):
            res.append(e)
        elif e[0] == "i":
            res.append(f"i{e[1]}")
        else:
            res.append(f"s:{o(e[1])}:{o(e[2])}:{o(e[3])}")
    return res


def shape_tok(shape):
    return ",".join(map(str, shape)) if len(shape) else "-"


def decorate(rng, idx, rank_entries):
    """Insert None entries and possibly replace a run of full slices by an Ellipsis."""
    idx = list(idx)
    # replace a maximal run of full slices by an ellipsis sometimes
    if rng.random() < 0.35:
        full = ("s", None, None, None)
        runs = [i for i, e in enumerate(idx) if e == full]
        if runs and rng.random() < 0.7:
            i = rng.choice(runs)
            j = i
            while j + 1 < len(idx) and idx[j + 1] == full and rng.random() < 0.7:
                j += 1
            idx[i:j + 1] = ["e"]
        else:
            idx.insert(rng.randrange(len(idx) + 1), "e")  # ellipsis standing for zero axes
    for _ in range(rng.choice([0, 0, 0, 1, 1, 2])):
        idx.insert(rng.randrange(len(idx) + 1), "n")
    return tuple(idx)


def gen_cases(ctx):
    rng = ctx.rng
    quick = ctx.tier == "quick"
    maxn = 3 if quick else 4
    cases = []  # (shape, idx)
    # rank 0
    for idx in [(), ("e",), ("n",), ("n", "e"), ("e", "n"), ("n", "n")]:
        cases.append(((), idx))
    # rank 1: exhaustive
    for n in range(0, maxn + 1):
        for e in axis_entries(n):
            cases.append(((n,), (e,)))
        for e in rng.sample(axis_entries(n), min(40, len(axis_entries(n)))):
            cases.append(((n,), decorate(rng, (e,), 1)))
    # rank 2, 3: sampled products (+ the full-slice fast path)
    per_shape = 120 if quick else 500
    shapes2 = [s for s in itertools.product(range(0, maxn + 1), repeat=2)]
    shapes3 = [s for s in itertools.product(range(0, maxn + 1), repeat=3)]
    if quick:
        shapes2 = rng.sample(shapes2, 8)
        shapes3 = rng.sample(shapes3, 5)
    else:
        shapes3 = rng.sample(shapes3, 30)
    for shape in shapes2 + shapes3:
        ents = [axis_entries(n) + [("s", None, None, None)] * 10 for n in shape]
        for _ in range(per_shape):
            idx = tuple(rng.choice(e) for e in ents)
            if rng.random() < 0.5:
                idx = decorate(rng, idx, len(shape))
            cases.append((shape, idx))
    return cases


def gen_malformed(ctx):
    rng = ctx.rng
    cases = []
    for shape in [(), (2,), (2, 3), (1, 2, 2)]:
        r = len(shape)
        ents = [axis_entries(max(n, 1)) for n in shape]
        # too few / too many entries, no ellipsis
        for k in list(range(0, r)) + [r + 1, r + 2]:
            idx = tuple(rng.choice(axis_entries(2)) for _ in range(k))
            if k == 0 and r == 0:
                continue
            cases.append((shape, idx))
            cases.append((shape, tuple(list(idx) + ["n"])))
        # too many with an ellipsis
        cases.append((shape, tuple([("i", 0)] * (r + 1) + ["e"])))
        # unsupported entry types
        for k in range(r + 1):
            idx = [rng.choice(e) for e in ents]
            idx.insert(min(k, len(idx)), "b")
            cases.append((shape, tuple(idx)))
            cases.append((shape, ("b",)))
        # two ellipses
        cases.append((shape, ("e", "e")))
    return cases


def expected_from_positions(tok, ans):
    parts = ans.split(" ")
    assert parts[0] == "ok", ans
    shape = [] if parts[1] == "-" else [int(v) for v in parts[1].split(",")]
    pos = [] if parts[2] == "-" else [int(v) for v in parts[2].split(",")]
    flat = tok.reshape(-1)
    if isinstance(tok, np.ma.MaskedArray):
        data = np.asarray(flat.data)[pos].reshape(shape) if pos else np.zeros(shape, dtype=flat.data.dtype)
        mask = np.ma.getmaskarray(flat)[pos].reshape(shape) if pos else np.zeros(shape, dtype=bool)
        return np.ma.masked_array(data, mask=mask)
    return flat[pos].reshape(shape) if pos else np.zeros(shape, dtype=tok.dtype)


def np_index(tok, index):
    """NumPy oracle; masked arrays are indexed field-wise (0-d masked results degrade to the
    float64 constant `np.ma.masked` otherwise)."""
    if isinstance(tok, np.ma.MaskedArray):
        return np.ma.masked_array(np.asarray(tok.data)[index], mask=np.ma.getmaskarray(tok)[index])
    return tok[index]


def same(a, b):
    ca, cb = impl.canon(a), impl.canon(b)
    return ca[1:] == cb[1:] and (ca[0] == cb[0] or "str" in (ca[0], cb[0]))


def run(ctx: common.Ctx):
    ctx.extra["rule"] = (
        "one-axis index space (ints in [-n,n), slices with step in {None,±1,±2,±3} and start/stop "
        "None or inside the Array-API bounds) enumerated exhaustively for extents 0..3 (quick) / 0..4 "
        "(thorough); rank 2-3 tuples are products sampled from it, decorated with None/Ellipsis; each "
        "case is traced with static extents, with symbolic extents, sampled eagerly, and compared with the "
        "Lean model's selected source positions and with NumPy; distinct = distinct (shape, index) pairs; "
        "non-trivial = selects through at least one int or stepped slice")
    cases = gen_cases(ctx)
    mal = gen_malformed(ctx)
    # ---- model answers --------------------------------------------------------------
    lines = [" ".join(["getitem", shape_tok(s)] + to_tok(i)) for s, i in cases]
    spec_lines = [" ".join(["getitem_spec", shape_tok(s)] + to_tok(i)) for s, i in cases]
    mal_lines = [" ".join(["getitem", shape_tok(s)] + to_tok(i)) for s, i in mal]
    answers = common.model(lines + spec_lines + mal_lines)
    m_ans = answers[:len(cases)]
    s_ans = answers[len(cases):2 * len(cases)]
    mal_ans = answers[2 * len(cases):]

    # ---- Lean Spec vs Lean model vs NumPy (ties the reference semantics) ---------------
    by_shape: dict = {}
    for k, (shape, idx) in enumerate(cases):
        by_shape.setdefault(shape, []).append(k)
    dtypes_cycle = ["int64", "float32", "utf8", "nint32", "uint8", "bool", "nfloat64", "nutf8",
                    "int16", "uint64", "nbool", "float64"]
    n_sessions = 0
    for si, (shape, ks) in enumerate(sorted(by_shape.items())):
        dtype = dtypes_cycle[(si + ctx.seed) % len(dtypes_cycle)]
        tok = impl.token_array(shape, dtype, salt=si)
        # NumPy oracle + model-vs-spec
        expected = {}
        for k in ks:
            _, idx = cases[k]
            np_res = np_index(tok, to_py(idx))
            try:
                mod_res = expected_from_positions(tok, m_ans[k])
            except AssertionError:
                mod_res = None
            expected[k] = (np_res, mod_res)
            if m_ans[k] != s_ans[k]:
                ctx.corr_broken("lean-model-vs-lean-spec", {"shape": shape, "index": str(to_py(idx)),
                                                         "model": m_ans[k], "spec": s_ans[k]})
            if mod_res is None or not same(np_res, mod_res):
                ctx.corr_broken("lean-spec-vs-numpy", {"shape": shape, "index": str(to_py(idx)),
                                                      "model": m_ans[k], "numpy": impl.canon(np_res)})
        # implementation: traced static / traced symbolic, batched
        for mode in ("static", "symbolic"):
            decl = shape if mode == "static" else tuple(f"D{j}" for j in range(len(shape)))
            for chunk_start in range(0, len(ks), 400):
                chunk = ks[chunk_start:chunk_start + 400]
                x = ndx.array(shape=decl, dtype=impl.dt(dtype))
                outs = {}
                for k in chunk:
                    _, idx = cases[k]
                    try:
                        outs[f"o{k}"] = x[to_py(idx)]
                    except Exception as e:  # admissible index rejected at build time
                        report(ctx, cases[k], dtype, mode, f"raised {type(e).__name__}: {e}", expected[k])
                if not outs:
                    continue
                try:
                    model_proto = ndx.build({"x": x}, outs)
                    res = impl.run_model(model_proto, impl.feed("x", tok, dtype), outs)
                    n_sessions += 1
                except Exception as e:
                    # find the culprit one by one
                    res = {}
                    for name, arr in outs.items():
                        try:
                            mp = ndx.build({"x": x}, {name: arr})
                            res.update(impl.run_model(mp, impl.feed("x", tok, dtype), {name: arr}))
                        except Exception as e2:
                            k = int(name[1:])
                            report(ctx, cases[k], dtype, mode, f"export/run failed {type(e2).__name__}: {str(e2)[:200]}", expected[k])
                for name, got in res.items():
                    k = int(name[1:])
                    compare(ctx, cases[k], dtype, mode, got, expected[k])
        # eager sample
        esample = ctx.rng.sample(ks, min(len(ks), 6 if ctx.tier == "quick" else 40))
        xe = ndx.asarray(tok)
        for k in esample:
            _, idx = cases[k]
            try:
                got = xe[to_py(idx)].to_numpy()
            except Exception as e:
                report(ctx, cases[k], dtype, "eager", f"raised {type(e).__name__}: {e}", expected[k])
                continue
            compare(ctx, cases[k], dtype, "eager", got, expected[k])
        if ctx.time_left() < 20:
            ctx.extra["truncated_at_shape"] = si
            break

    # ---- malformed indices: exception class at build time ---------------------------------
    for (shape, idx), ans in zip(mal, mal_ans):
        x = ndx.array(shape=shape, dtype=ndx.int64)
        try:
            x[to_py(idx)]
            got = "ok"
        except Exception as e:
            got = "err " + impl.errclass(e)
        want = ans if ans.startswith("err") else "ok"
        ident = ("mal", shape, idx)
        ctx.case(ident, True, {"shape": shape, "index": str(to_py(idx)), "impl": got, "model": want})
        ctx.count("malformed")
        if got != want:
            # property side: must be IndexError/TypeError at build time
            if got == "ok" or got not in ("err IndexError", "err TypeError"):
                ctx.violation(f"getitem/malformed/{got.replace(' ', '-')}",
                              f"x[{to_py(idx)}] on rank {len(shape)}: {got}, expected IndexError/TypeError",
                              {"shape": shape, "index": str(to_py(idx)), "observed": got, "model": want})
            else:
                ctx.corr_broken("getitem-malformed", {"shape": shape, "index": str(to_py(idx)),
                                                      "impl": got, "model": want})
    ctx.extra["sessions"] = n_sessions
    ctx.extra["exhaustive"] = False
    ctx.extra["one_axis_space_exhaustive_up_to_extent"] = 3 if ctx.tier == "quick" else 4

    # ---- strings of rank >= 2 with integer entries: always exercised (recorded finding) -----------------
    for dtype in ("utf8", "nutf8"):
        for shape, idx in [((2, 3), (("i", 1), "e")), ((2, 3), (("s", None, None, None), ("i", 1))), ((3, 2, 2), (("i", -1), ("i", 0), "e"))]:
            tok = impl.token_array(shape, dtype, salt=1)
            exp = (np_index(tok, to_py(idx)), None)
            for mode in ("eager", "static"):
                try:
                    if mode == "eager":
                        got = ndx.asarray(tok)[to_py(idx)].to_numpy()
                    else:
                        x = ndx.array(shape=shape, dtype=impl.dt(dtype))
                        out = x[to_py(idx)]
                        got = impl.run_model(ndx.build({"x": x}, {"o": out}), impl.feed("x", tok, dtype), {"o": out})["o"]
                except Exception as e:
                    report(ctx, (shape, idx), dtype, mode, f"raised {type(e).__name__}", exp)
                    continue
                ctx.case((shape, idx, dtype, mode), True)
                if not same(got, exp[0]):
                    report(ctx, (shape, idx), dtype, mode, impl.canon(got), exp)

    from . import c08_arrays
    c08_arrays.run(ctx)

    # graph-level tie (B): the exported graph of every case is the term of Model/TGraphFns.getitemGraph
    # (Props/C08Graph.lean: getitemGraph_eval, getitem_slices_nd, exported_slices_graph_correct)
    from .. import tgraph
    tgraph.run_getitem(ctx, cases)
    # boolean-mask selection at graph level: Reshape + Compress (Model/TGraphScatter.maskGraph; Props/C08MaskGraph.lean)
    from .. import scattertie
    scattertie.run(ctx, 80 if ctx.tier == "quick" else 800, label="mask", kinds=("mask", "intindex"))


def nontrivial(idx):
    for e in idx:
        if isinstance(e, tuple) and (e[0] == "i" or e[3] not in (None, 1) or e[1] is not None or e[2] is not None):
            return True
    return False


def compare(ctx, case, dtype, mode, got, expected):
    shape, idx = case
    np_res, mod_res = expected
    ctx.case((shape, idx), nontrivial(idx),
             {"shape": shape, "index": str(to_py(idx)), "dtype": dtype, "mode": mode})
    ctx.count(f"mode:{mode}")
    ctx.count(f"rank:{len(shape)}")
    ok_np = same(got, np_res)
    ok_model = mod_res is not None and same(got, mod_res)
    if not ok_np:
        report(ctx, case, dtype, mode, impl.canon(got), expected)
    elif not ok_model:
        ctx.corr_broken("getitem-impl-vs-model", {"shape": shape, "index": str(to_py(idx)), "mode": mode,
                                                   "impl": impl.canon(got)})


def report(ctx, case, dtype, mode, observed, expected):
    shape, idx = case
    np_res, _ = expected
    kind = "slice" if any(isinstance(e, tuple) and e[0] == "s" for e in idx) else "int"
    has_int = any(isinstance(e, tuple) and e[0] == "i" for e in idx)
    dcls = "string-nd" if (dtype in ("utf8", "nutf8") and len(shape) >= 2 and has_int) else "any"
    ctx.violation(
        f"getitem/basic-{kind}/{dcls}/{mode}",
        f"x[{to_py(idx)}] on shape {shape} ({dtype}, {mode}) differs from NumPy",
        {"shape": shape, "index": str(to_py(idx)), "dtype": dtype, "mode": mode,
         "observed": observed, "expected_numpy": impl.canon(np_res),
         "snippet": f"import ndonnx as ndx, numpy as np; x=np.arange({int(np.prod(shape)) if shape else 1}).reshape({shape}); print(ndx.asarray(x)[{to_py(idx)}].to_numpy(), x[{to_py(idx)}])"})
