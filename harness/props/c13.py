"""C13 — creation functions and NumPy conversion round-trip exactly.

(1) asarray(v).to_numpy() == v for every supported NumPy dtype, ranks 0..4, extents incl. 0, masked
arrays with masks {nomask, scalar, broadcastable, full}, scalars, nested lists, object arrays of str;
(2) zeros / ones / full / empty / eye / arange / linspace / *_like vs NumPy over parameter grids
(shape as int / tuple / array / placeholder; k; start/stop/step of any sign; num; endpoint; dtype incl.
nullable and string).  Lean: Props/C13.lean (Range length/elements, eye diagonal)."""
from __future__ import annotations

import itertools
import random

import numpy as np

from .. import common, impl, tables

NP_DTYPES = ["int8", "int16", "int32", "int64", "uint8", "uint16", "uint32", "uint64", "float32", "float64", "bool", "str"]


def rt_worker(job):
    ndx = impl.ndx
    dtype, shape, mkind, form, seed = job
    rng = np.random.default_rng(seed)
    size = int(np.prod(shape)) if shape else 1
    if dtype == "str":
        v = np.array(["", "a", "bc", "ß∂", "x y"])[rng.integers(0, 5, size=size)].reshape(shape)
    elif dtype == "bool":
        v = rng.integers(0, 2, size=size).astype(bool).reshape(shape)
    elif dtype.startswith("float"):
        v = np.array([0.0, -0.0, 1.5, -2.25, np.inf, np.nan, 1e-30, 3.0])[rng.integers(0, 8, size=size)].astype(dtype).reshape(shape)
    else:
        ii = np.iinfo(dtype)
        v = np.array([0, 1, ii.max, ii.min, 7], dtype=object)[rng.integers(0, 5, size=size)].astype(dtype).reshape(shape)
    rec = {"dtype": dtype, "shape": list(shape), "mask": mkind, "form": form, "fail": []}
    if mkind != "core":
        if mkind == "nomask":
            v = np.ma.masked_array(v)
        elif mkind == "scalar":
            v = np.ma.masked_array(v, mask=bool(seed % 2))
        elif mkind == "full":
            v = np.ma.masked_array(v, mask=rng.integers(0, 2, size=size).astype(bool).reshape(shape))
        elif mkind == "broadcastable":
            if not shape:
                v = np.ma.masked_array(v, mask=False)
            else:
                mshape = tuple(1 if i % 2 == 0 else n for i, n in enumerate(shape))
                m = np.broadcast_to(rng.integers(0, 2, size=int(np.prod(mshape))).astype(bool).reshape(mshape), shape)
                v = np.ma.masked_array(v, mask=m)
    arg = v
    if form == "list" and size == 0:
        form = "array"          # an empty nested list cannot carry its shape/dtype
    if form == "list" and mkind == "core":
        arg = v.tolist()
    elif form == "object" and dtype == "str" and mkind == "core":
        arg = v.astype(object)
    elif form == "scalar" and mkind == "core" and not shape:
        arg = v[()] if dtype != "str" else str(v[()])
    try:
        a = ndx.asarray(arg)
        back = a.to_numpy()
    except Exception as e:
        rec["fail"].append(("raises", f"{type(e).__name__}: {str(e)[:200]}"))
        return rec
    want = v
    if form == "list" and dtype not in ("int64", "float64", "bool", "str"):
        want = np.asarray(arg)          # a nested list has NumPy's default dtype
    from .. import progs
    if isinstance(want, np.ma.MaskedArray) != isinstance(back, np.ma.MaskedArray):
        rec["fail"].append(("nullability", f"{type(back).__name__}"))
    elif tuple(np.shape(back)) != tuple(np.shape(want)):
        rec["fail"].append(("shape", f"{np.shape(back)} != {np.shape(want)}"))
    elif not progs.same_value(back, want):
        rec["fail"].append((progs.diff_kind(back, want), f"{impl.canon(back)} != {impl.canon(want)}"[:300]))
    elif isinstance(want, np.ma.MaskedArray) and np.ma.getmaskarray(back).shape != want.shape:
        rec["fail"].append(("mask-shape", str(np.ma.getmaskarray(back).shape)))
    elif dtype == "str" and back.dtype.kind != "U" and (not isinstance(back, np.ma.MaskedArray) or back.data.dtype.kind != "U"):
        rec["fail"].append(("string-dtype", str(back.dtype)))
    return rec


def creation_worker(job):
    from .. import sweep
    ndx = impl.ndx
    fn, seed = job
    rng = random.Random(f"c13/{fn}/{seed}")
    rec = {"fn": fn, "fail": []}
    dts = ["float64", "int64", "int8", "uint16", "float32", "bool", "nint32", "nfloat64", "utf8", "nbool", "uint64"]

    def shape_arg(shape, kind):
        if kind == "int" and len(shape) == 1:
            return shape[0]
        if kind == "array":
            return ndx.asarray(np.array(shape, dtype=np.int64))
        return tuple(shape)

    try:
        if fn in ("zeros", "ones", "empty", "full"):
            shape = tuple(rng.choice([0, 1, 2, 3]) for _ in range(rng.randrange(0, 4)))
            kind = rng.choice(["tuple", "int", "array", "placeholder"]) if shape else "tuple"
            dt = rng.choice([None] + [d for d in dts if not (fn == "ones" and d.endswith("utf8"))])
            fill = None
            if fn == "full":
                base = (dt[1:] if dt and impl.is_nullable(dt) else dt)
                fill = {"bool": True, "utf8": "abc"}.get(base, 3 if (base and "int" in base) else (2.5 if base else rng.choice([3, 2.5, True, "xy"])))
            rec["params"] = {"shape": list(shape), "shape_kind": kind, "dtype": dt, "fill": fill}
            kw = {} if dt is None else {"dtype": impl.dt(dt)}
            if kind == "placeholder":
                s = ndx.array(shape=(len(shape),), dtype=ndx.int64)
                out = getattr(ndx, fn)(s, fill, **kw) if fn == "full" else getattr(ndx, fn)(s, **kw)
                got = impl.run_model(ndx.build({"s": s}, {"o": out}), {"s": np.array(shape, dtype=np.int64)}, {"o": out})["o"]
            else:
                out = getattr(ndx, fn)(shape_arg(shape, kind), fill, **kw) if fn == "full" else getattr(ndx, fn)(shape_arg(shape, kind), **kw)
                got = out.to_numpy()
            base = (dt[1:] if dt and impl.is_nullable(dt) else dt)
            npdt = None if base is None else (str if base == "utf8" else base)
            if fn == "full":
                ref = np.full(shape, fill, dtype=None if npdt is str else npdt)
            elif fn == "empty":
                ref = np.zeros(shape, dtype=npdt or "float64")
            else:
                ref = getattr(np, fn)(shape, dtype=npdt or "float64")
            check_result(rec, got, ref, nullable=bool(dt and impl.is_nullable(dt)), values=(fn != "empty"))
        elif fn.endswith("_like"):
            shape = tuple(rng.choice([0, 1, 2, 3]) for _ in range(rng.randrange(0, 4)))
            dt = rng.choice([d for d in dts if not (fn == "ones_like" and d.endswith("utf8"))])
            x = impl.token_array(shape, dt)
            dt2 = rng.choice([None, None] + [d for d in dts if not d.endswith("utf8")])
            fill = None
            tgt = dt2 or dt
            base = tgt[1:] if impl.is_nullable(tgt) else tgt
            if fn == "full_like":
                fill = {"bool": True, "utf8": "q"}.get(base, 3 if "int" in base else 2.5)
            rec["params"] = {"shape": list(shape), "dtype": dt, "like_dtype": dt2, "fill": fill}
            kw = {} if dt2 is None else {"dtype": impl.dt(dt2)}
            call = (lambda a: ndx.full_like(a, fill, **kw)) if fn == "full_like" else (lambda a: getattr(ndx, fn)(a, **kw))
            npdt = str if base == "utf8" else base
            ref = {"zeros_like": lambda: np.zeros(shape, dtype=npdt), "ones_like": lambda: np.ones(shape, dtype=npdt),
                   "empty_like": lambda: np.zeros(shape, dtype=npdt),
                   "full_like": lambda: np.full(shape, fill, dtype=None if npdt is str else npdt)}[fn]()
            for mode, got in sweep.run_case(call, [x], [dt]).items():
                if sweep.is_error(got):
                    rec["fail"].append((mode + ":raises", got[1])); continue
                check_result(rec, got, ref, nullable=impl.is_nullable(tgt), values=(fn != "empty_like"), tag=mode)
        elif fn == "eye":
            n, m, k = rng.choice([0, 1, 2, 3, 4]), rng.choice([None, 0, 1, 2, 3, 5]), rng.randrange(-4, 5)
            dt = rng.choice([None, "float64", "int64", "int8", "uint16", "float32", "uint8"])     # eye is defined for numeric dtypes
            rec["params"] = {"n": n, "m": m, "k": k, "dtype": dt}
            kw = {} if dt is None else {"dtype": impl.dt(dt)}
            got = ndx.eye(n, m, k=k, **kw).to_numpy()
            check_result(rec, got, np.eye(n, m, k=k, dtype=dt or "float64"))
        elif fn == "arange":
            ints = rng.random() < 0.6
            if ints:
                start, stop, step = rng.randrange(-6, 7), rng.choice([None] + list(range(-8, 9))), rng.choice([1, 2, 3, -1, -2, 5])
            else:
                start, stop, step = rng.choice([0.0, 0.5, -2.5, 3.0]), rng.choice([None, 4.0, -3.5, 0.5, 10.0]), rng.choice([0.5, 1.0, -0.5, 2.5, -1.5])
            dt = rng.choice([None, None, "int64", "float64", "int32", "float32", "int8"])
            if not ints and dt is not None and "int" in dt:
                dt = "float64"      # float bounds with an integer dtype: the order of rounding is not specified
            # the same numbers spelled as NumPy scalars / 0-d arrays / ndonnx arrays of the default dtypes: the result
            # (dtype included) must not depend on the spelling
            def spell(v):
                if v is None:
                    return v, "py"
                how = rng.choice(["py", "py", "np-scalar", "np-0d", "ndx"])
                t = np.int64 if isinstance(v, int) else np.float64
                return {"py": v, "np-scalar": t(v), "np-0d": np.array(v, dtype=t), "ndx": ndx.asarray(np.array(v, dtype=t))}[how], how
            pstart, pstop, pstep = start, stop, step
            (start, h1), (stop, h2), (step, h3) = spell(start), spell(stop), (spell(step) if step != 1 else (step, "py"))
            rec["params"] = {"start": pstart, "stop": pstop, "step": pstep, "dtype": dt, "spelling": [h1, h2, h3]}
            kw = {} if dt is None else {"dtype": impl.dt(dt)}
            if stop is None:
                got = ndx.arange(start, step=step, **kw).to_numpy() if pstep != 1 else ndx.arange(start, **kw).to_numpy()
                start, stop, step = pstart, pstop, pstep
                ref = np.arange(start, step=step, dtype=dt) if step != 1 else np.arange(start, dtype=dt)
            else:
                got = ndx.arange(start, stop, step, **kw).to_numpy()
                start, stop, step = pstart, pstop, pstep
                ref = np.arange(start, stop, step, dtype=dt)
            check_result(rec, got, ref, ulps=2)
        elif fn == "linspace":
            start, stop = rng.choice([0, 1.5, -3, 10]), rng.choice([1, -2.5, 7, 0])
            num, endpoint = rng.choice([0, 1, 2, 3, 5, 11]), rng.random() < 0.6
            dt = rng.choice([None, "float64", "float32"])
            rec["params"] = {"start": start, "stop": stop, "num": num, "endpoint": endpoint, "dtype": dt}
            kw = {} if dt is None else {"dtype": impl.dt(dt)}
            def spell_f(v):
                how = rng.choice(["py", "py", "np-scalar", "np-0d", "ndx"])
                t = np.int64 if isinstance(v, int) else np.float64
                return {"py": v, "np-scalar": t(v), "np-0d": np.array(v, dtype=t), "ndx": ndx.asarray(np.array(v, dtype=t))}[how]
            got = ndx.linspace(spell_f(start), spell_f(stop), num, endpoint=endpoint, **kw).to_numpy()
            check_result(rec, got, np.linspace(start, stop, num, endpoint=endpoint, dtype=dt or "float64"), ulps=4)
    except Exception as e:
        rec["fail"].append(("raises", f"{type(e).__name__}: {str(e)[:200]}"))
    return rec


def check_result(rec, got, ref, nullable=False, values=True, ulps=0, tag=""):
    from .. import progs
    t = (tag + ":") if tag else ""
    if isinstance(got, impl.Malformed):
        rec["fail"].append((t + "malformed", str(got))); return
    if nullable != isinstance(got, np.ma.MaskedArray):
        rec["fail"].append((t + "nullability", type(got).__name__)); return
    gd = np.asarray(got.data) if nullable else np.asarray(got)
    if nullable and np.ma.getmaskarray(got).any():
        rec["fail"].append((t + "mask", "created array has nulls")); return
    if gd.shape != ref.shape:
        rec["fail"].append((t + "shape", f"{gd.shape} != {ref.shape}")); return
    if (gd.dtype.kind in "UO") != (ref.dtype.kind in "UO") or (gd.dtype.kind not in "UO" and gd.dtype != ref.dtype):
        rec["fail"].append((t + "dtype", f"{gd.dtype} != {ref.dtype}")); return
    if values and not progs.same_value(gd, ref, ulps=ulps):
        rec["fail"].append((t + "values", f"{gd.tolist()} != {ref.tolist()}"[:300]))


def run(ctx: common.Ctx):
    ctx.extra["rule"] = (
        "round trip: 12 NumPy dtypes x shapes of rank 0..4 (extents 0..3) x {plain, nomask, scalar mask, broadcastable "
        "mask, full mask} x {array, nested list, object array, scalar}; creation: zeros/ones/empty/full/eye/arange/"
        "linspace/*_like over random parameter grids (shape as int/tuple/array/placeholder, negative steps, num in {0,1}, "
        "endpoint, dtype incl. nullable/string); distinct = distinct argument tuples; non-trivial = all")
    rng = ctx.rng
    quick = ctx.tier == "quick"
    shapes = [(), (0,), (1,), (3,), (2, 3), (0, 2), (1, 1, 2), (2, 1, 0, 1), (1, 2, 2, 1)]
    jobs = []
    for dtype in NP_DTYPES:
        for shape in shapes:
            for mkind in ["core", "nomask", "scalar", "broadcastable", "full"]:
                forms = ["array"] + (["list", "scalar", "object"] if mkind == "core" else [])
                for form in forms:
                    jobs.append((dtype, shape, mkind, form, len(jobs) + ctx.seed))
    if quick:
        jobs = rng.sample(jobs, 450)
    res = tables.pmap(rt_worker, jobs, chunk=16)
    for job, r in tables.pairs(ctx, jobs, res):
        if isinstance(r, tables.Crashed):
            ctx.violation("asarray/interpreter-crash", f"{job}: worker died", {"job": repr(job)}); continue
        ctx.case(("roundtrip",) + job[:4], True, {k: r[k] for k in ("dtype", "shape", "mask", "form")} if len(ctx.samples) < 4 else None)
        ctx.count("roundtrip:" + r["mask"])
        for kind, detail in r["fail"]:
            ctx.violation(f"asarray/{r['dtype']}/{r['mask']}-{r['form']}/{kind}",
                          f"asarray round trip {r['dtype']}{r['shape']} mask={r['mask']} form={r['form']}: {kind}: {detail}",
                          {**{k: r[k] for k in ("dtype", "shape", "mask", "form")}, "kind": kind, "detail": detail})
    fns = ["zeros", "ones", "empty", "full", "zeros_like", "ones_like", "empty_like", "full_like", "eye", "arange", "linspace"]
    cjobs = [(fn, ctx.seed * 131 + k) for fn in fns for k in range(60 if quick else 600)]
    cres = tables.pmap(creation_worker, cjobs, chunk=8)
    for job, r in tables.pairs(ctx, cjobs, cres):
        if isinstance(r, tables.Crashed):
            ctx.violation(f"{job[0]}/interpreter-crash", f"{job}: worker died", {"job": repr(job)}); continue
        ctx.case(("creation", job[0], str(r.get("params"))), True, {"fn": r["fn"], **(r.get("params") or {})} if len(ctx.samples) < 8 else None)
        ctx.count("fn:" + r["fn"])
        p = r.get("params") or {}
        sig = str(p.get("dtype")) + ("/" + str(p.get("shape_kind")) if "shape_kind" in p else "")
        for kind, detail in r["fail"]:
            ctx.violation(f"{r['fn']}/{sig}/{kind}", f"{r['fn']}({p}): {kind}: {detail}", {"fn": r["fn"], "params": p, "kind": kind, "detail": detail})

    # full / full_like with a fill value that is itself a (null or non-null) nullable scalar, in every spelling:
    # NumPy masked constant, masked 0-d array, ndonnx nullable array; eager, placeholder shape and placeholder fill
    nullable_fill_sweep(ctx)
    # creation functions whose shape / fill / bound is a placeholder, at graph level (Model/TGraphScatter; Props/C13Graph.lean)
    from .. import scattertie
    scattertie.run(ctx, 90 if ctx.tier == "quick" else 1000, label="creation", kinds=("creation",))


def nullable_fill_sweep(ctx):
    ndx = impl.ndx
    for dt in ["nint32", "nfloat64", "nbool", "nutf8", "nuint8", "nint64"]:
        base = dt[1:]
        payload = {"bool": True, "utf8": "pq"}.get(base, 7 if "int" in base else 2.5)
        npdt = None if base == "utf8" else base       # (dtype=str would truncate to one character)
        for null in (True, False):
            fills = {"masked-0d": np.ma.masked_array(np.array(payload, dtype=npdt), mask=null),
                     "ndonnx-0d": ndx.asarray(np.ma.masked_array(np.array(payload, dtype=npdt), mask=null))}
            for fk, fill in fills.items():
                for shape in [(2,), (0,), (2, 3), ()]:
                    for sk in ("tuple", "placeholder-shape", "placeholder-fill", "full_like"):
                        ident = ("nullable-fill", dt, null, fk, shape, sk)
                        ref = np.ma.masked_array(np.full(shape, payload, dtype=npdt), mask=np.full(shape, null))
                        try:
                            if sk == "tuple":
                                got = ndx.full(shape, fill).to_numpy()
                            elif sk == "full_like":
                                got = ndx.full_like(ndx.zeros(shape, dtype=impl.dt(dt)), fill).to_numpy()
                            elif sk == "placeholder-shape":
                                s_ = ndx.array(shape=(len(shape),), dtype=ndx.int64)
                                out = ndx.full(s_, fill)
                                got = impl.run_model(ndx.build({"s": s_}, {"o": out}), {"s": np.array(shape, dtype=np.int64)}, {"o": out})["o"]
                            else:
                                f_ = ndx.array(shape=(), dtype=impl.dt(dt))
                                out = ndx.full(shape, f_)
                                got = impl.run_model(ndx.build({"f": f_}, {"o": out}), impl.feed("f", np.ma.masked_array(np.array(payload, dtype=npdt), mask=null), dt), {"o": out})["o"]
                        except Exception as e:
                            ctx.case(ident, True)
                            ctx.violation(f"full/{dt}/nullable-fill/raises", f"full({shape}, {fk} null={null}) [{sk}] raises {type(e).__name__}: {str(e)[:160]}",
                                          {"dtype": dt, "null": null, "fill": fk, "shape": list(shape), "form": sk})
                            continue
                        ctx.case(ident, True)
                        ctx.count("nullable-fill")
                        cg, cr = impl.canon(got), impl.canon(ref)
                        if cg[1:] != cr[1:] or (cg[0] != cr[0] and "str" not in (cg[0], cr[0])):
                            ctx.violation(f"full/{dt}/nullable-fill/{'mask' if cg[3] != cr[3] else 'values'}",
                                          f"full({shape}, {fk} null={null}) [{sk}] -> {cg}, expected {cr}",
                                          {"dtype": dt, "null": null, "fill": fk, "shape": list(shape), "form": sk, "observed": str(cg), "expected": str(cr)})
