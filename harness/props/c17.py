"""C17 — unsupported dtype combinations fail loudly instead of being coerced.

Tie (A): the element-wise function x dtype-tuple outcome matrix (arrays in every position, Python
scalars in either position, operator spellings, eager and lazy) is dumped exhaustively and every row
is checked against the reference law `Ndx.fnLaw` (outside the domain => TypeError subclass; never a
result; never a foreign exception class) — by the model driver to name offending rows and by the Lean
kernel over the generated tables.  A second table covers the remaining public functions (reductions,
sorting, searching, set, linear algebra, statistics) on string / boolean / user-struct operands."""
from __future__ import annotations

from .. import common, fntable, gen, tables
from ..impl import ALL_DTYPES


def other_row(job):
    """Non-element-wise functions on operands outside their numeric domain."""
    from .. import impl
    import numpy as np
    ndx = impl.ndx
    fn, d, mode = job
    if d == "struct":
        x = _struct_array(mode)
    elif mode == "eager":
        x = ndx.asarray(impl.token_array((2, 2), d))
    else:
        x = ndx.array(shape=("N", 2), dtype=impl.dt(d))
    calls = {
        "sum": lambda: ndx.sum(x), "prod": lambda: ndx.prod(x), "mean": lambda: ndx.mean(x),
        "var": lambda: ndx.var(x), "std": lambda: ndx.std(x), "max": lambda: ndx.max(x),
        "min": lambda: ndx.min(x), "cumulative_sum": lambda: ndx.cumulative_sum(x, axis=0),
        "argmax": lambda: ndx.argmax(x), "argmin": lambda: ndx.argmin(x),
        "sort": lambda: ndx.sort(x, axis=0), "argsort": lambda: ndx.argsort(x, axis=0),
        "matmul": lambda: ndx.matmul(x, x), "tril": lambda: ndx.tril(x), "triu": lambda: ndx.triu(x),
        "clip": lambda: ndx.clip(x, min=x, max=x),
        "all": lambda: ndx.all(x), "any": lambda: ndx.any(x),
        "abs_method": lambda: abs(x), "neg_method": lambda: -x, "invert_method": lambda: ~x,
        "add": lambda: x + x, "equal": lambda: x == x, "less": lambda: x < x,
        "logical_and": lambda: ndx.logical_and(x, x), "sin": lambda: ndx.sin(x),
        "where_cond": lambda: ndx.where(x, 1, 2),
    }
    if fn.startswith("mix:"):
        # a secondary operand of another kind next to a numeric primary operand
        num = ndx.asarray(np.array([[1, 2], [3, 4]], dtype=np.int64)) if mode == "eager" else ndx.array(shape=("N", 2), dtype=ndx.int64)
        one = ndx.asarray(np.array([1, 2, 3], dtype=np.int64)) if mode == "eager" else ndx.array(shape=("M",), dtype=ndx.int64)
        flat = ndx.reshape(x, (-1,)) if d != "struct" else x
        mixed = {
            "mix:searchsorted-x2": lambda: ndx.searchsorted(one, flat),
            "mix:searchsorted-x1": lambda: ndx.searchsorted(flat, one),
            "mix:clip-min": lambda: ndx.clip(num, min=x),
            "mix:clip-max": lambda: ndx.clip(num, max=x),
            "mix:concat": lambda: ndx.concat([num, x], axis=0),
            "mix:matmul": lambda: ndx.matmul(num, x),
        }
        # operands without elements (static extent 0) still take part in promotion: the dtype check may not be skipped
        num0 = ndx.asarray(np.zeros((0, 2), dtype=np.int64)) if mode == "eager" else ndx.array(shape=(0, 2), dtype=ndx.int64)
        if d != "struct":
            x0 = ndx.asarray(impl.token_array((0, 2), d)) if mode == "eager" else ndx.array(shape=(0, 2), dtype=impl.dt(d))
        else:
            x0 = x
        mixed.update({
            "mix:concat-empty-numeric": lambda: ndx.concat([num0, x], axis=0),
            "mix:concat-empty-other": lambda: ndx.concat([num, x0], axis=0),
            "mix:concat-empty-other-first": lambda: ndx.concat([x0, num], axis=0),
            "mix:stack-empty": lambda: ndx.stack([num0, x0]),
        })
        return tables.outcome(mixed[fn])
    if "@" in fn:
        # the same function with an explicit accumulator / result dtype: a keyword must not open a side door
        base, acc = fn.split("@")
        kw = {"dtype": impl.dt(acc)}
        if base == "cumulative_sum":
            kw["axis"] = 0
        return tables.outcome(lambda: getattr(ndx, base)(x, **kw))
    return tables.outcome(calls[fn])


def _struct_array(mode):
    """A user-defined struct dtype that implements no operations."""
    from .. import userdtype
    return userdtype.pair_array(eager=(mode == "eager"))


NUMERIC_ONLY = ["sum", "prod", "mean", "var", "std", "max", "min", "cumulative_sum", "argmax",
                "argmin", "sort", "argsort", "matmul", "tril", "triu", "clip", "sin", "abs_method", "neg_method"]


def other_law(fn, d):
    """'raises' | 'free' for the second table (domains from the Array API standard)."""
    core = d[1:] if d.startswith("n") and d != "n" and d[1:] in ALL_DTYPES else d
    if fn.startswith("mix:"):
        if d == "struct" or core == "utf8":
            return "raises"
        if core == "bool":
            # searching is an ordering function of numeric arrays; promotion of a boolean operand next to a numeric one
            # (matmul, clip bounds, concat) follows result_type and is not demanded to fail
            return "raises" if fn in ("mix:searchsorted-x2", "mix:searchsorted-x1") else "free"
        return "free"
    fn = fn.split("@")[0]
    if d == "struct":
        return "raises"        # the user dtype implements nothing
    if core == "utf8":
        if fn in ("add", "equal"):
            return "free"
        return "raises"
    if core == "bool":
        if fn in NUMERIC_ONLY or fn in ("add", "less"):
            return "raises" if fn not in ("less", "max", "min", "sort", "argsort", "argmax", "argmin", "tril", "triu", "clip") else "free"
        return "free"
    # numeric
    if fn in ("logical_and", "where_cond", "invert_method") and fn != "invert_method":
        return "raises"
    if fn == "invert_method":
        return "raises" if core.startswith("float") else "free"
    return "free"


def run(ctx: common.Ctx):
    ctx.extra["rule"] = (
        "exhaustive element-wise function x dtype-tuple matrix (all unary x 24 dtypes, all binary x "
        "24x24 array pairs and x 4 Python-scalar kinds in both positions, operator spellings, other "
        "ranks, eager sample) + 27 further functions/operators x {24 dtypes, user struct dtype} x "
        "{lazy, eager}; distinct = distinct (function, operands, mode); non-trivial = the law demands "
        "a TypeError or a definite dtype (not an unspecified combination)")
    js, outs, laws = fntable.dump(ctx)
    table = fntable.evaluate(ctx, js, outs, laws, {"C17"})
    mods = fntable.write_gen(table)
    # ---- second table ---------------------------------------------------------------------
    fns = ["sum", "prod", "mean", "var", "std", "max", "min", "cumulative_sum", "argmax", "argmin",
           "sort", "argsort", "matmul", "tril", "triu", "clip", "all", "any", "abs_method",
           "neg_method", "invert_method", "add", "equal", "less", "logical_and", "sin", "where_cond"]
    fns += ["mix:searchsorted-x2", "mix:searchsorted-x1", "mix:clip-min", "mix:clip-max", "mix:concat", "mix:matmul",
            "mix:concat-empty-numeric", "mix:concat-empty-other", "mix:concat-empty-other-first", "mix:stack-empty"]
    fns += [f"{f}@{acc}" for f in ("sum", "prod", "cumulative_sum", "var", "std") for acc in ("float64", "int64", "float32")]
    jobs = [(fn, d, mode) for fn in fns for d in ALL_DTYPES + ["struct"] for mode in ("lazy", "eager")]
    if ctx.tier == "quick":
        jobs = [j for j in jobs if j[2] == "lazy" or j[1] in ("utf8", "nutf8", "bool", "nbool", "struct", "int32", "float64")]
    outs2 = tables.pmap(other_row, jobs, chunk=16, strict=True)
    for (fn, d, mode), o in zip(jobs, outs2):
        law = other_law(fn, d)
        ctx.case(("other", fn, d, mode), law == "raises",
                 {"function": fn, "dtype": d, "mode": mode, "observed": o, "law": law} if (law == "raises" and ctx.rng.random() < 0.01) else None)
        ctx.count("other:" + law)
        # only the combinations the property lists as outside the domain are judged here; what a
        # function does inside its domain belongs to C10/C11/C12
        bad = law == "raises" and o != "!TypeError"
        if bad:
            kind = ("raises-" + o[1:].replace(":", "-")) if o.startswith("!") else f"returns-{o}"
            ctx.violation(f"{fn}/{fntable.dclass(d) if d != 'struct' else 'struct'}/{kind}",
                          f"{fn} on {d} ({mode}) -> {o}; expected {'a TypeError' if law == 'raises' else 'a result or a TypeError'}",
                          {"function": fn, "dtype": d, "mode": mode, "observed": o, "law": law})
    gen.check_generated(ctx, mods)
    ctx.extra["exhaustive"] = True
    ctx.extra["tables"] = {"function_matrix_rows": len(js), "function_matrix_rows_in_lean_table": len(table),
                           "other_function_rows": len(jobs)}
