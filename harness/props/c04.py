"""C04 — nulls propagate by the masking rule and null payloads never leak.

Paired-payload runs: every nullable input is materialised twice with different payloads under its
nulls (small values, type extremes, NaN/inf); the operation is evaluated eagerly and traced on both;
(1) the two results must agree in mask and in every non-null value (metamorphic relation); (2) the
mask must follow the rule (element-wise OR / where / travels-with-element / reductions ignore nulls) and
non-null values must equal the plain-data result (NumPy oracle).  Lean: Props/C04.lean."""
from __future__ import annotations

import zlib

import random
import warnings

import numpy as np

from .. import common, impl, tables
from .c02 import NP_BINARY, NP_UNARY, ulp_close

UNARY = ["abs", "negative", "sign", "square", "floor", "sqrt", "exp", "isnan", "isfinite", "logical_not", "bitwise_invert", "log1p"]
BINARY = ["add", "subtract", "multiply", "divide", "equal", "less", "greater_equal", "not_equal", "logical_and", "logical_or",
          "logical_xor", "bitwise_and", "remainder", "pow", "atan2"]
REDUCE = ["sum", "prod", "min", "max", "all", "any"]
OTHER = ["where", "where_scalar_cond", "fill_null", "astype", "isin", "getitem", "reshape", "roll", "flip", "take", "concat",
         "expand_dims", "broadcast_to", "clip", "clip_bounds", "copy", "setitem_own_mask", "setitem_mask_to_null"]
LEAK_SUSPECTS = ["sort", "argsort", "cumulative_sum", "matmul", "mean", "std", "var", "argmax", "unique_values"]


def payload_variants(rng, data, mask, dtype):
    """Two arrays equal outside `mask`, different (and nasty) under it."""
    out = []
    for k in range(2):
        d = data.copy()
        n = int(mask.sum())
        if n:
            if d.dtype.kind == "f":
                junk = np.array([np.nan, np.inf, -np.inf, 1e30, -7.5, 0.0, 123.25])[rng.integers(0, 7, size=n)]
            elif d.dtype.kind in "iu":
                ii = np.iinfo(d.dtype)
                junk = np.array([ii.max, ii.min, 0, 1, 5, ii.max // 3], dtype=object)[rng.integers(0, 6, size=n)]
            elif d.dtype.kind == "b":
                junk = rng.integers(0, 2, size=n).astype(bool)
            else:
                junk = np.array(["JUNK", "", "zzz", "0"])[rng.integers(0, 4, size=n)]
            d = d.astype(object) if d.dtype.kind == "U" else d
            d[mask] = np.asarray(junk).astype(d.dtype) if d.dtype != object else junk
            if data.dtype.kind == "U":
                d = d.astype(str)
        out.append(np.ma.masked_array(d, mask=mask.copy()))
    return out


def make_input(rng, prng, dtype, shape, nullable=True, all_null=False):
    base = dtype
    size = int(np.prod(shape)) if shape else 1
    if base == "bool":
        data = rng.integers(0, 2, size=size).astype(bool)
    elif base == "utf8":
        data = np.array(["a", "b", "ab", ""])[rng.integers(0, 4, size=size)]
    elif base in impl.FLOATS:
        data = (rng.integers(-4, 9, size=size) * 0.5).astype(base)
    else:
        data = rng.integers(1 if base.startswith("u") else -3, 6, size=size).astype(base)
    data = data.reshape(shape)
    if not nullable:
        return [data, data]
    mask = np.array(rng.integers(0, 3, size=size).reshape(shape) == 0)
    if all_null:
        mask[...] = True
    if size and not mask.any() and prng.random() < 0.7:
        mask.reshape(-1)[rng.integers(0, size)] = True
    return payload_variants(rng, data, mask, base)


def worker(job):
    from .. import sweep, progs
    ndx = impl.ndx
    op, dtype, seed = job
    rng = np.random.default_rng(seed)
    prng = random.Random(seed)
    rec = {"op": op, "dtype": dtype, "fail": [], "skip": None}
    r = prng.choice([0, 1, 1, 2, 2, 3])
    shape = tuple(prng.choice([0, 1, 2, 3]) if prng.random() < 0.25 else prng.choice([2, 3]) for _ in range(r))
    ndt = "n" + dtype
    oracle = None          # (mask, data, compare_fn) or None: metamorphic only
    inputs, dts, call = None, None, None

    def bshape():
        return tuple((1 if prng.random() < 0.3 else n) for n in shape[prng.randrange(0, len(shape) + 1):])

    with np.errstate(all="ignore"), warnings.catch_warnings():
        warnings.simplefilter("ignore")
        if op in UNARY:
            x = make_input(rng, prng, dtype, shape)
            inputs, dts = [x], [ndt]
            call = lambda a: getattr(ndx, op)(a)
            oracle = (np.ma.getmaskarray(x[0]), NP_UNARY[op](np.ma.getdata(x[0])))
        elif op in BINARY:
            ynull = prng.random() < 0.6
            x = make_input(rng, prng, dtype, shape)
            y = make_input(rng, prng, dtype, bshape(), nullable=ynull)
            if prng.random() < 0.5:
                x, y = y, x
                xn, yn = (ynull, True)
            else:
                xn, yn = (True, ynull)
            inputs, dts = [x, y], [("n" if xn else "") + dtype, ("n" if yn else "") + dtype]
            call = lambda a, b: getattr(ndx, op)(a, b)
            xd, yd = np.ma.getdata(x[0]), np.ma.getdata(y[0])
            if op in ("remainder", "divide") and dtype in impl.INTS:
                pass
            m = np.logical_or(*np.broadcast_arrays(np.ma.getmaskarray(x[0]) if xn else np.zeros(xd.shape, bool),
                                                   np.ma.getmaskarray(y[0]) if yn else np.zeros(yd.shape, bool)))
            if op == "pow" and dtype in impl.INTS:
                yd = np.abs(yd) % 4
                inputs[1] = [np.ma.masked_array(np.where(np.ma.getmaskarray(v), np.ma.getdata(v), yd), mask=np.ma.getmaskarray(v)) if yn else yd for v in inputs[1]]
            if op in ("remainder", "divide", "floor_divide") and dtype in impl.INTS:
                # keep non-null divisors non-zero
                fix = lambda v: np.ma.masked_array(np.where((np.ma.getdata(v) == 0) & ~np.ma.getmaskarray(v), 1, np.ma.getdata(v)).astype(dtype), mask=np.ma.getmaskarray(v)) if yn else np.where(v == 0, 1, v).astype(dtype)
                inputs[1] = [fix(v) for v in inputs[1]]
                yd = np.ma.getdata(inputs[1][0])
            def safe(v, isnull):
                d = np.ma.getdata(v)
                if isnull and d.dtype.kind in "iuf":
                    d = np.where(np.ma.getmaskarray(v), np.asarray(1).astype(d.dtype), d)     # results under nulls are ignored
                return d
            try:
                oracle = (m, NP_BINARY[op](safe(inputs[0][0], xn), safe(inputs[1][0], yn)))
            except Exception:
                oracle = None
        elif op in REDUCE or op in ("mean", "std", "var", "argmax", "cumulative_sum"):
            if r == 0:
                shape = (3,)
            x = make_input(rng, prng, dtype, shape)
            axis = prng.choice([None] + list(range(-len(shape), len(shape))))
            if op == "cumulative_sum":
                axis = prng.randrange(len(shape)) if len(shape) > 1 else prng.choice([None, 0])
            inputs, dts = [x], [ndt]
            kd = prng.random() < 0.3
            call = (lambda a: getattr(ndx, op)(a, axis=axis)) if op in ("cumulative_sum",) else (lambda a: getattr(ndx, op)(a, axis=axis, keepdims=kd))
            rec["params"] = {"axis": axis, "keepdims": kd}
            if op in REDUCE or op == "mean":
                mx = x[0]
                npf = {"sum": np.ma.sum, "prod": np.ma.prod, "min": np.ma.min, "max": np.ma.max, "all": np.ma.all, "any": np.ma.any,
                       "mean": np.ma.mean}[op]
                try:
                    ref = npf(mx, axis=axis, keepdims=kd)
                    oracle = ("reduce", ref)
                except ValueError:
                    oracle = None       # min/max over an empty axis: NumPy refuses, nothing to compare
        elif op in ("sort", "argsort"):
            if r == 0 or 0 in shape:
                shape = (4,)          # zero extents: recorded C12 finding (onnxruntime TopK kills the interpreter)
            x = make_input(rng, prng, dtype, shape)
            inputs, dts = [x], [ndt]
            call = lambda a: getattr(ndx, op)(a, axis=-1)
        elif op == "unique_values":
            x = make_input(rng, prng, dtype, shape or (4,))
            inputs, dts = [x], [ndt]
            call = lambda a: ndx.unique_values(a)
        elif op == "matmul":
            x = make_input(rng, prng, dtype, (2, 3)); y = make_input(rng, prng, dtype, (3, 2), nullable=False)
            inputs, dts = [x, y], [ndt, dtype]
            call = lambda a, b: ndx.matmul(a, b)
        elif op in ("where", "where_scalar_cond"):
            csh = () if op == "where_scalar_cond" else bshape()
            if op == "where_scalar_cond" and prng.random() < 0.5:
                csh = (1,) * prng.randrange(0, len(shape) + 1)
            c = make_input(rng, prng, "bool", csh, all_null=(op == "where_scalar_cond" and prng.random() < 0.5))
            xn, yn = prng.random() < 0.7, prng.random() < 0.5
            x = make_input(rng, prng, dtype, shape, nullable=xn); y = make_input(rng, prng, dtype, bshape(), nullable=yn)
            inputs, dts = [c, x, y], ["nbool", ("n" if xn else "") + dtype, ("n" if yn else "") + dtype]
            call = lambda a, b, d: ndx.where(a, b, d)
            cd, cm = np.ma.getdata(c[0]), np.ma.getmaskarray(c[0])
            xd, yd = np.ma.getdata(x[0]), np.ma.getdata(y[0])
            xm = np.ma.getmaskarray(x[0]) if xn else np.zeros(xd.shape, bool)
            ym = np.ma.getmaskarray(y[0]) if yn else np.zeros(yd.shape, bool)
            try:
                sel = np.where(cd, xd, yd)
                m = cm | np.where(cd, xm, ym) if True else None
                m = np.broadcast_to(cm, sel.shape) | np.where(cd, xm, ym)
                oracle = (m, sel)
            except ValueError:
                rec["skip"] = "not broadcastable"; return rec
        elif op == "fill_null":
            x = make_input(rng, prng, dtype, shape)
            fill = {"bool": True, "utf8": "F"}.get(dtype, 2)
            inputs, dts = [x], [ndt]
            call = lambda a: ndx.additional.fill_null(a, fill)
            d = np.ma.getdata(x[0]).copy()
            if d.dtype.kind == "U":
                d = d.astype(object)
            d[np.ma.getmaskarray(x[0])] = fill
            oracle = (None, d.astype(str) if dtype == "utf8" else d.astype(np.ma.getdata(x[0]).dtype))
        elif op == "astype":
            x = make_input(rng, prng, dtype, shape)
            tgt = prng.choice(["nint64", "nfloat64", "nbool", "nint8"]) if dtype != "utf8" else "nutf8"
            inputs, dts = [x], [ndt]
            call = lambda a: ndx.astype(a, impl.dt(tgt))
            if dtype in impl.FLOATS and tgt in ("nint64", "nint8"):
                oracle = None
            else:
                oracle = (np.ma.getmaskarray(x[0]), np.ma.getdata(x[0]).astype(impl.np_dtype(tgt)))
        elif op == "isin":
            x = make_input(rng, prng, dtype, shape)
            items = {"bool": [True], "utf8": ["a", "ab"]}.get(dtype, [1, 2])
            inputs, dts = [x], [ndt]
            call = lambda a: ndx.additional.isin(a, items)
        elif op in ("getitem", "reshape", "roll", "flip", "take", "concat", "expand_dims", "broadcast_to", "copy"):
            if r == 0 and op in ("roll", "take", "concat"):
                shape = (3,)
            x = make_input(rng, prng, dtype, shape)
            inputs, dts = [x], [ndt]
            mx = x[0]
            if op == "getitem":
                idx = tuple(progs._idx(progs._basic_index(prng, shape)))
                call = lambda a: a[idx]
                f = lambda v: v[idx]
            elif op == "reshape":
                call = lambda a: ndx.reshape(a, (-1,)); f = lambda v: v.reshape(-1)
            elif op == "roll":
                sh, ax = prng.randrange(-4, 5), prng.randrange(len(shape))
                call = lambda a: ndx.roll(a, sh, axis=ax); f = lambda v: np.roll(v, sh, axis=ax)
            elif op == "flip":
                call = lambda a: ndx.flip(a); f = lambda v: np.flip(v)
            elif op == "take":
                n = shape[0] or 1
                ind = [prng.randrange(-n, n) for _ in range(3)] if shape[0] else []
                call = lambda a: ndx.take(a, ndx.asarray(np.array(ind, dtype=np.int64)), axis=0); f = lambda v: np.take(v, ind, axis=0)
            elif op == "concat":
                call = lambda a: ndx.concat([a, a], axis=0); f = lambda v: np.concatenate([v, v], axis=0)
            elif op == "expand_dims":
                call = lambda a: ndx.expand_dims(a, 0); f = lambda v: np.expand_dims(v, 0)
            elif op == "broadcast_to":
                call = lambda a: ndx.broadcast_to(a, (2,) + tuple(shape)); f = lambda v: np.broadcast_to(v, (2,) + tuple(shape))
            else:
                call = lambda a: a.copy(); f = lambda v: v
            if dtype == "utf8" and len(shape) >= 2 and op in ("getitem", "take", "roll"):
                rec["skip"] = "string gather finding"; return rec
            oracle = (f(np.ma.getmaskarray(mx)), f(np.ma.getdata(mx)))
        elif op == "clip":
            x = make_input(rng, prng, dtype, shape)
            inputs, dts = [x], [ndt]
            lo, hi = (-1, 2) if dtype not in ("uint8", "uint16", "uint32", "uint64") else (1, 3)
            call = lambda a: ndx.clip(a, min=lo, max=hi)
            oracle = (np.ma.getmaskarray(x[0]), np.clip(np.ma.getdata(x[0]), lo, hi))
        elif op == "setitem_own_mask":
            # x[x.null] = v: the array's own null field as the index; every formerly null slot holds v afterwards
            if dtype == "utf8" or not shape:
                rec["skip"] = "not applicable"; return rec
            x = make_input(rng, prng, dtype, shape)
            v = True if dtype == "bool" else 2
            inputs, dts = [x], [ndt]
            def call(a):
                t = a.copy()
                t[t.null] = v
                return t
            m0 = np.ma.getmaskarray(x[0])
            oracle = (np.zeros(shape, bool), np.where(m0, np.asarray(v).astype(np.ma.getdata(x[0]).dtype), np.ma.getdata(x[0])))
        elif op == "setitem_mask_to_null":
            # x[m] = <null scalar of x's dtype>: the selected slots become null, the others keep flag and value
            if dtype == "utf8" or not shape:
                rec["skip"] = "not applicable"; return rec
            x = make_input(rng, prng, dtype, shape)
            sel = rng.integers(0, 2, size=shape).astype(bool)
            nullv = np.ma.masked_array(np.asarray(1).astype(np.ma.getdata(x[0]).dtype), mask=True)
            inputs, dts = [x, [sel, sel]], [ndt, "bool"]
            def call(a, m):
                t = a.copy()
                t[m] = ndx.asarray(nullv)
                return t
            oracle = (np.ma.getmaskarray(x[0]) | sel, np.ma.getdata(x[0]))
        elif op == "clip_bounds":
            # bounds that are arrays themselves: 0-d or broadcastable, nullable or not; a null bound nulls the element
            x = make_input(rng, prng, dtype, shape)
            bsh = [(), ()] if prng.random() < 0.6 else [bshape(), bshape()]
            ln, hn = prng.random() < 0.7, prng.random() < 0.5
            lo = make_input(rng, prng, dtype, bsh[0], nullable=ln, all_null=ln and prng.random() < 0.3)
            hi = make_input(rng, prng, dtype, bsh[1], nullable=hn)
            # keep lo <= hi on the data so that the clip is well defined
            hi = [np.ma.masked_array((np.ma.getdata(h) + 6).astype(dtype), mask=np.ma.getmaskarray(h)) if hn else (h + 6).astype(dtype) for h in hi]
            inputs, dts = [x, lo, hi], [ndt, ("n" if ln else "") + dtype, ("n" if hn else "") + dtype]
            call = lambda a, l, h: ndx.clip(a, min=l, max=h)
            def safe(v, isnull, fill):
                d = np.ma.getdata(v)
                return np.where(np.ma.getmaskarray(v), np.asarray(fill).astype(d.dtype), d) if isnull else d
            ms = [np.ma.getmaskarray(x[0]), np.ma.getmaskarray(lo[0]) if ln else np.zeros(np.shape(lo[0]), bool),
                  np.ma.getmaskarray(hi[0]) if hn else np.zeros(np.shape(hi[0]), bool)]
            try:
                bm = np.broadcast_arrays(*ms)
                oracle = (bm[0] | bm[1] | bm[2], np.clip(safe(x[0], True, 1), safe(lo[0], ln, 0), safe(hi[0], hn, 7)))
            except ValueError:
                rec["skip"] = "shapes do not broadcast"; return rec
        else:
            rec["skip"] = "unknown op"; return rec
    results = []
    for k in range(2):
        vals = [v[k] for v in inputs]
        results.append(sweep.run_case(call, vals, dts, decl=prng.choice(["symbolic", "unknown"])))
    rec["shape"] = list(shape)
    for mode in ("eager", "traced"):
        a, b = results[0][mode], results[1][mode]
        if sweep.is_error(a) or sweep.is_error(b):
            # an operation that does not accept this nullable dtype is not C04's concern, unless payload decides
            if sweep.is_error(a) != sweep.is_error(b):
                rec["fail"].append((mode, "payload-decides-whether-it-raises", f"{a if sweep.is_error(a) else b}"))
            else:
                rec["unsupported"] = (a[1] if sweep.is_error(a) else "")[:120]
            continue
        if isinstance(a, impl.Malformed) or isinstance(b, impl.Malformed):
            rec["fail"].append((mode, "malformed-result", str(a)[:200])); continue
        # (1) metamorphic: payload must not matter
        if isinstance(a, np.ma.MaskedArray) != isinstance(b, np.ma.MaskedArray) or np.shape(a) != np.shape(b):
            rec["fail"].append((mode, "payload-changes-shape-or-nullability", "")); continue
        if isinstance(a, np.ma.MaskedArray):
            ma_, mb_ = np.ma.getmaskarray(a), np.ma.getmaskarray(b)
            if not np.array_equal(ma_, mb_):
                rec["fail"].append((mode, "payload-changes-mask", f"{ma_.tolist()} vs {mb_.tolist()}"[:200])); continue
            da, db = np.ma.getdata(a)[~ma_], np.ma.getdata(b)[~mb_]
        else:
            da, db = np.asarray(a).reshape(-1), np.asarray(b).reshape(-1)
        same = (da.astype(str) == db.astype(str)) if da.dtype.kind in "UO" else ((da == db) | ((da != da) & (db != db)) if da.dtype.kind == "f" else da == db)
        if not np.all(same):
            rec["fail"].append((mode, "payload-leaks-into-values", f"{np.asarray(da).tolist()} vs {np.asarray(db).tolist()}"[:240])); continue
        # (2) oracle
        if oracle is None:
            continue
        if isinstance(oracle[0], str) and oracle[0] == "reduce":
            ref = oracle[1]
            if np.ma.is_masked(ref) and np.ndim(ref) == 0:
                continue            # everything null: the result of the reduction is not fixed
            refd = np.ma.getdata(ref); refm = np.ma.getmaskarray(ref)
            gd = np.ma.getdata(a)
            if gd.shape != np.shape(refd):
                rec["fail"].append((mode, "reduction-shape", f"{gd.shape} != {np.shape(refd)}")); continue
            keep = ~np.broadcast_to(refm, np.shape(refd))
            if isinstance(a, np.ma.MaskedArray):
                keep = keep & ~np.ma.getmaskarray(a)
            g, w = np.asarray(gd)[keep], np.asarray(refd)[keep]
            # floating results are compared at the precision of the *result* dtype (a float32 mean is the float32
            # rounding of the exact mean; the reference may have been accumulated in float64)
            fd = g.dtype if g.dtype.kind == "f" else np.dtype(np.float64)
            ok = ulp_close(g.astype(fd), w.astype(fd), 8) if w.dtype.kind == "f" else (g.astype(object) == w.astype(object))
            if not np.all(ok):
                rec["fail"].append((mode, "reduction-counts-nulls", f"got {g.tolist()} want {w.tolist()}"[:200]))
            continue
        m, d = oracle
        gm = isinstance(a, np.ma.MaskedArray)
        if m is None:
            if gm and np.ma.getmaskarray(a).any():
                rec["fail"].append((mode, "mask-rule", "nulls remain after fill_null")); continue
            gd = np.ma.getdata(a)
            keep = np.ones(gd.shape, bool)
        else:
            if not gm:
                rec["fail"].append((mode, "mask-rule", "result is not nullable")); continue
            if np.shape(a) != np.shape(d):
                rec["fail"].append((mode, "shape", f"{np.shape(a)} != {np.shape(d)}")); continue
            if not np.array_equal(np.ma.getmaskarray(a), np.broadcast_to(m, np.shape(d))):
                rec["fail"].append((mode, "mask-rule", f"mask {np.ma.getmaskarray(a).tolist()} rule {np.broadcast_to(m, np.shape(d)).tolist()}"[:240])); continue
            gd = np.ma.getdata(a)
            keep = ~np.ma.getmaskarray(a)
        g, w = np.asarray(gd)[keep], np.asarray(d)[keep]
        if w.dtype.kind == "f":
            ok = ulp_close(g.astype(w.dtype), w, 16 if op in ("sqrt", "exp", "log1p", "atan2", "divide") else 4)
            if op in ("sqrt", "exp", "log1p", "atan2") and dtype == "float64":
                ok = np.isclose(g.astype(np.float64), w, rtol=1e-6, equal_nan=True)     # float32 routing: C02 finding
        elif w.dtype.kind in "UO":
            ok = g.astype(str) == w.astype(str)
        else:
            ok = g.astype(object) == w.astype(object)
        if not np.all(ok):
            rec["fail"].append((mode, "non-null-values-differ-from-plain-result", f"got {g.tolist()} want {w.tolist()}"[:240]))
    return rec


def domain_ok(op, dtype):
    num = dtype in impl.INTS + impl.FLOATS
    if op in ("abs", "negative", "sign", "square", "add", "subtract", "multiply", "less", "greater_equal", "remainder", "pow",
              "sum", "prod", "min", "max", "clip", "clip_bounds", "sort", "argsort", "cumulative_sum", "matmul", "mean", "argmax", "unique_values"):
        return num
    if op in ("floor", "sqrt", "exp", "isnan", "isfinite", "log1p", "divide", "atan2", "std", "var"):
        return dtype in impl.FLOATS
    if op in ("logical_not", "logical_and", "logical_or", "logical_xor"):
        return dtype == "bool"
    if op in ("bitwise_invert", "bitwise_and"):
        return dtype in impl.INTS or dtype == "bool"
    if op in ("all", "any"):
        return dtype == "bool" or num
    if op in ("equal", "not_equal"):
        return True
    return True


MASK_VALUE_DEPENDENT = {"remainder": "the mask is Where(cond, null(r + b), null(r)) over the sign test (equal to a_null | b_null, but the graph mentions the values)",
                        "sign": "the mask is expanded to the shape of the values graph (Shape of a values node)"}


def mask_graph_row(job):
    from .. import graphterm
    from .c02 import G_UNARY
    ndx = impl.ndx
    fn, d, an, bn = job
    unary = fn in G_UNARY
    try:
        a = ndx.array(shape=("N",), dtype=impl.dt(("n" if an else "") + d))
        b = ndx.array(shape=("N",), dtype=impl.dt(("n" if bn else "") + d))
        out = getattr(ndx, fn)(a) if unary else getattr(ndx, fn)(a, b)
        model = ndx.build({"a": a} if unary else {"a": a, "b": b}, {"o": out})
        names = [o.name for o in model.graph.output]
        if names != ["o_values", "o_null"]:
            return {"unsupported": f"outputs {names}"}
        ren = {"a_values": "a", "b_values": "b"}
        return {"values": graphterm.sexpr(model, "o_values", ren), "null": graphterm.sexpr(model, "o_null", ren)}
    except Exception as e:
        return {"unsupported": type(e).__name__}


def mask_graph_tie(ctx):
    """Tie B for the masking rule: for every integer / boolean element-wise function on nullable operands, the
    exported values graph must be a term of `Ndx.Graph.gterms` (the same graph as for plain operands, proved
    correct in Props/C02Graph.lean) and the exported null-mask graph a term of `nullTerms2/1`
    (Props/C04Graph.lean: `null_graph_correct`, `null_graph_ignores_values`, `values_graph_ignores_masks`)."""
    from .c02 import G_UNARY, G_BINARY
    jobs = []
    for fn in G_UNARY + G_BINARY:
        for d in impl.INTS + ["bool"]:
            combos = [(True, False)] if fn in G_UNARY else [(True, True), (True, False), (False, True)]
            jobs += [(fn, d, an, bn) for an, bn in combos]
    rows = tables.pmap(mask_graph_row, jobs, chunk=8, strict=True)
    lines = []
    for fn, d, an, bn in jobs:
        lines.append(f"gterm {fn} {d}")
        lines.append("gnull 1" if fn in G_UNARY else f"gnull {int(an)} {int(bn)}")
    acc = common.model(lines)
    stats = {"rows": len(jobs), "unsupported_by_library": 0, "values_matched": 0, "mask_matched": 0,
             "mask_outside_family(value-dependent by construction)": 0}
    for k, ((fn, d, an, bn), r) in enumerate(zip(jobs, rows)):
        vterms, nterms = acc[2 * k], acc[2 * k + 1]
        if "unsupported" in r:
            stats["unsupported_by_library"] += 1
            continue
        if vterms == "~":
            continue
        ctx.case(("mask-graph", fn, d, an, bn), True, {"function": fn, "dtype": d, "nullable": [an, bn], **r} if stats["mask_matched"] < 2 else None)
        if r["values"] in vterms.split(" || "):
            stats["values_matched"] += 1
        else:
            ctx.corr_broken(f"values-graph-of-nullable/{fn}/{d}", {"nullable": [an, bn], "exported_graph": r["values"][:400], "accepted_terms": vterms.split(" || ")[:3]})
        if r["null"] in nterms.split(" || "):
            stats["mask_matched"] += 1
        elif fn in MASK_VALUE_DEPENDENT:
            stats["mask_outside_family(value-dependent by construction)"] += 1
        else:
            ctx.corr_broken(f"mask-graph/{fn}/{d}", {"nullable": [an, bn], "exported_mask_graph": r["null"][:400], "accepted_terms": nterms.split(" || "),
                                                     "theorem": "Ndx.Graph.null_graph_correct"})
    stats["value_dependent_mask_functions"] = MASK_VALUE_DEPENDENT
    ctx.extra["mask_graph_tie"] = stats


def run(ctx: common.Ctx):
    ctx.extra["rule"] = (
        "for every operation accepting nullable dtypes (12 unary, 15 binary with broadcasting and mixed nullable/plain "
        "operands, 6 reductions, where incl. single-element null conditions, fill_null, astype, isin, clip, 9 indexing/"
        "layout functions, and sort/argsort/cumulative_sum/matmul/mean/std/var/argmax/unique as leak suspects) x dtypes x "
        "random shapes/masks: two runs that differ only in the payload under the nulls (type extremes, NaN, inf, junk "
        "strings), eager and traced; distinct = distinct (operation, dtype, seed); non-trivial = at least one null present")
    quick = ctx.tier == "quick"
    dts = ["int64", "float64", "bool", "utf8", "int8", "float32", "uint8", "int32", "uint16"]
    jobs = []
    for op in UNARY + BINARY + REDUCE + OTHER + LEAK_SUSPECTS:
        ds = [d for d in dts if domain_ok(op, d)]
        for k in range(10 if quick else 100):
            jobs.append((op, ds[k % len(ds)], zlib.crc32(f"{op}/{ctx.seed}/{k}".encode())))
    res = tables.pmap(worker, jobs, chunk=6)
    for job, r in tables.pairs(ctx, jobs, res):
        if isinstance(r, tables.Crashed):
            ctx.violation(f"{job[0]}/{job[1]}/interpreter-crash", f"{job}: worker died", {"job": repr(job)}); continue
        if r.get("skip"):
            ctx.count("skipped:" + r["skip"]); continue
        ctx.case(job, True, {"op": r["op"], "dtype": r["dtype"], "shape": r.get("shape")} if len(ctx.samples) < 8 else None)
        ctx.count("op:" + r["op"])
        if r.get("unsupported"):
            ctx.count("nullable-not-supported:" + r["op"])
        for mode, kind, detail in r["fail"]:
            ctx.violation(f"{r['op']}/{r['dtype']}/{kind}", f"{r['op']}(n{r['dtype']}{r.get('shape')}, {r.get('params', '')}) {mode}: {kind}: {detail}",
                          {"op": r["op"], "dtype": r["dtype"], "shape": r.get("shape"), "mode": mode, "kind": kind, "detail": detail})
    mask_graph_tie(ctx)
    # through indexing the null flag travels with its element: both fields of a nullable operand go through the same
    # exported term (mask selection / integer index array; Props/C08MaskGraph.lean, C08IntGraph.lean), each on its own field
    from .. import scattertie
    scattertie.run(ctx, 60 if quick else 800, label="null-travel", kinds=("null_travel",))
