"""C03 — result dtypes follow the promotion lattice; nullability is opt-in and closed.

Tie (A): `result_type` on all 24x24 pairs (dtype objects and arrays), all 24^3 triples through the
n-ary API, `promote(array, Python scalar)` for every dtype x scalar kind x order, and the function x
dtype-tuple outcome matrix of the element-wise API are dumped exhaustively from the running
implementation.  The pair/scalar tables are written to lean/Gen/ResultType.lean, where the Lean
kernel re-checks the lattice laws over the dumped table and its equality with the closed-form model
`Ndx.resultType` (about which Props/C03.lean proves the laws for every dtype).  The function matrix is
checked against the reference law `Ndx.fnLaw` (Gen/FnDtype*.lean)."""
from __future__ import annotations

import itertools

from .. import common, fntable, gen, tables
from ..catalog import PY_SCALARS
from ..impl import ALL_DTYPES

IDX = {d: i for i, d in enumerate(ALL_DTYPES)}


def enc(o: str) -> int:
    if o == "!TypeError" or o == "TypeError":
        return 24
    return IDX.get(o, 25)


def core_of(d):
    return d[1:] if d.startswith("n") and d[1:] in IDX else d


def kindset(ds):
    ks = set()
    for d in ds:
        c = core_of(d)
        ks.add("f" if c.startswith("float") else "u" if c.startswith("uint") else "i" if c.startswith("int") else c)
    return ks


def where_row(job):
    """dtype of where(cond, x, y) for every kind of condition."""
    from .. import impl
    ndx = impl.ndx
    cond_kind, a, b = job
    x = ndx.array(shape=("N",), dtype=impl.dt(a))
    y = ndx.array(shape=("N",), dtype=impl.dt(b))
    cond = {"lazy": lambda: ndx.array(shape=("N",), dtype=ndx.bool),
            "lazy-nbool": lambda: ndx.array(shape=("N",), dtype=ndx.nbool),
            "py-true": lambda: True, "py-false": lambda: False,
            "const-true-1d": lambda: ndx.asarray([True]),
            "const-false-0d": lambda: ndx.asarray(False)}[cond_kind]()
    return tables.outcome(ndx.where, cond, x, y)


def misc_row(job):
    """Functions whose result dtype is a simple function of the operand dtype(s)."""
    from .. import impl
    ndx = impl.ndx
    fn, ds = job
    xs = [ndx.array(shape=("N", 2), dtype=impl.dt(d)) for d in ds]
    calls = {
        "concat": lambda: ndx.concat(xs, axis=0),
        "stack": lambda: ndx.stack(xs, axis=0),
        "clip": lambda: ndx.clip(xs[0], min=xs[1], max=xs[1]),
        "clip-pyscalar": lambda: ndx.clip(xs[0], min=1.0 if "float" in ds[0] else 1, max=2.0 if "float" in ds[0] else 2),
        "clip-pyscalar-min": lambda: ndx.clip(xs[0], min=1.0 if "float" in ds[0] else 1),
        "matmul": lambda: ndx.matmul(xs[0], ndx.permute_dims(xs[1], (1, 0))),
        "sort": lambda: ndx.sort(xs[0], axis=0),
        "argsort": lambda: ndx.argsort(xs[0], axis=0),
        "argmax": lambda: ndx.argmax(xs[0], axis=0),
        "argmin": lambda: ndx.argmin(xs[0], axis=0),
        "max": lambda: ndx.max(xs[0], axis=0),
        "min": lambda: ndx.min(xs[0], axis=0),
        "take": lambda: ndx.take(xs[0], ndx.asarray([0]), axis=0),
        "roll": lambda: ndx.roll(xs[0], 1, axis=0),
        "flip": lambda: ndx.flip(xs[0]),
        "reshape": lambda: ndx.reshape(xs[0], (-1,)),
        "expand_dims": lambda: ndx.expand_dims(xs[0], 0),
        "squeeze": lambda: ndx.squeeze(ndx.expand_dims(xs[0], 0), 0),
        "permute_dims": lambda: ndx.permute_dims(xs[0], (1, 0)),
        "broadcast_to": lambda: ndx.broadcast_to(xs[0][:1, :], (3, 2)),
        "zeros_like": lambda: ndx.zeros_like(xs[0]),
        "ones_like": lambda: ndx.ones_like(xs[0]),
        "full_like": lambda: ndx.full_like(xs[0], 1 if "utf8" not in ds[0] else "a"),
        "isin": lambda: ndx.additional.isin(xs[0], ["a"] if "utf8" in ds[0] else [1]),
        "getitem": lambda: xs[0][0, ...],
        "copy": lambda: xs[0].copy(),
    }
    return tables.outcome(calls[fn])


# expected dtype of the misc functions, as a function of operand dtypes (None = no claim here)
def misc_law(fn, ds, rt):
    a = ds[0]
    numeric = core_of(a) not in ("bool", "utf8")
    nul = a != core_of(a)
    if fn in ("concat", "stack"):
        return ("must", rt(ds)) if rt(ds) != "TypeError" else ("raises",)
    if fn == "sort":
        return ("must", a) if numeric else None
    if fn in ("max", "min"):
        # reductions treat nulls as absent (C04); whether the result of a nullable reduction is
        # itself nullable is not fixed by the properties -> no claim for nullable input
        return ("must", a) if (numeric and not nul) else None
    if fn in ("argsort", "argmax", "argmin"):
        return ("must", "int64") if (numeric and not nul) else None
    if fn in ("take", "roll", "flip", "reshape", "expand_dims", "squeeze", "permute_dims",
              "broadcast_to", "zeros_like", "ones_like", "full_like", "getitem", "copy"):
        return ("must", a)
    if fn == "isin":
        return ("must", "bool")
    if fn == "clip":
        # the standard fixes the result dtype only for bounds of x's own dtype
        return ("must", a) if (numeric and all(d == a for d in ds)) else None
    if fn in ("clip-pyscalar", "clip-pyscalar-min"):
        # Python scalars adopt the array's dtype (floating arrays with float bounds; the integer case is left open:
        # the library routes small integer dtypes through int64 for want of kernels)
        return ("must", a) if (core_of(a) in ("float32", "float64")) else None
    if fn == "matmul":
        r = rt(ds)
        if not all(core_of(d) not in ("bool", "utf8") for d in ds):
            return None
        return ("must", r)
    return None


def impl_is_nullable(d):
    return d.startswith("n")


def run(ctx: common.Ctx):
    ctx.extra["rule"] = (
        "exhaustive tables: result_type on 24x24 dtype pairs (dtype objects and lazy arrays), 24^3 "
        "triples via the n-ary API, promote(array, Python scalar) for 24 dtypes x 4 scalar kinds x 2 "
        "orders, where() for 6 condition kinds x 24x24, the element-wise function x dtype-tuple "
        "matrix (all unary x 24, all binary x 24x24 and x scalars both orders, operator spellings, "
        "other ranks and eager samples), and ~25 further functions x dtypes; distinct = distinct "
        "(function, operand dtypes, mode); non-trivial = the law demands a definite outcome")
    names = ALL_DTYPES
    # ---------------- result_type tables --------------------------------------------------
    pairs = list(itertools.product(names, repeat=2))
    triples = list(itertools.product(names, repeat=3))
    pair_out = tables.pmap(tables.result_type_row, pairs, strict=True)
    pair_arr_out = tables.pmap(tables.result_type_array_row, pairs, strict=True)
    triple_out = tables.pmap(tables.result_type_row, triples, chunk=512, strict=True)
    single_out = [tables.result_type_row((d,)) for d in names]
    scal_jobs = [(d, k, first) for d in names for k in PY_SCALARS for first in (False, True)]
    scal_out = tables.pmap(tables.promote_scalar_row, scal_jobs, strict=True)
    cores = [d for d in names if not impl_is_nullable(d)]
    np_jobs = [(d, e, form, first, via) for d in names for e in cores for form in ("np-scalar", "np-0d", "np-1d")
               for first in (False, True) for via in ("promote",)]
    np_jobs += [(d, e, "np-scalar", first, via) for d in names for e in cores for first in (False, True)
                for via in ("add", "multiply", "equal")]
    np_out = tables.pmap(tables.promote_np_row, np_jobs, strict=True, chunk=256)
    model = common.model([f"rt {a} {b}" for a, b in pairs] + [f"rt {a} {b} {c}" for a, b, c in triples]
                         + [f"scalar {d} {k}" for d, k, _ in scal_jobs] + [f"rt {d}" for d in names])
    m_pair = model[:len(pairs)]
    m_triple = model[len(pairs):len(pairs) + len(triples)]
    m_scal = model[len(pairs) + len(triples):len(pairs) + len(triples) + len(scal_jobs)]
    m_single = model[-len(names):]
    rt_table = {p: o for p, o in zip(pairs, pair_out)}

    def norm(o):
        return "TypeError" if o == "!TypeError" else o

    for (a, b), o, oa, m in zip(pairs, pair_out, pair_arr_out, m_pair):
        ctx.case(("rt", a, b), True)
        ctx.count("result_type:pair")
        # laws on the implementation's own table
        if norm(o) != norm(rt_table[(b, a)]):
            ctx.violation(f"result_type/{a},{b}/not-commutative",
                          f"result_type({a},{b})={o} but result_type({b},{a})={rt_table[(b, a)]}",
                          {"pair": [a, b], "observed": [o, rt_table[(b, a)]]})
        if not o.startswith("!"):
            want_nul = (a != core_of(a)) or (b != core_of(b))
            if (o != core_of(o)) != want_nul:
                ctx.violation(f"result_type/{a},{b}/nullability",
                              f"result_type({a},{b})={o}: nullable iff an operand is nullable fails",
                              {"pair": [a, b], "observed": o})
        if (core_of(a) == "utf8") != (core_of(b) == "utf8") and o != "!TypeError":
            ctx.violation(f"result_type/{a},{b}/string-mixes",
                          f"result_type({a},{b})={o}: strings must not promote with non-strings",
                          {"pair": [a, b], "observed": o,
                           "snippet": f"import ndonnx as ndx; print(ndx.result_type(ndx.{a}, ndx.{b}))"})
        if o != oa:
            ctx.violation(f"result_type/{a},{b}/array-vs-dtype-args",
                          f"result_type on arrays gives {oa}, on dtypes {o}", {"pair": [a, b]})
        if norm(o) != m:
            # table differs from the closed-form model (= NumPy promotion): decide who is right
            ctx.violation(f"result_type/{a},{b}/not-numpy-promotion",
                          f"result_type({a},{b})={o}, NumPy/Array-API promotion gives {m}",
                          {"pair": [a, b], "observed": o, "expected": m,
                           "snippet": f"import ndonnx as ndx; print(ndx.result_type(ndx.{a}, ndx.{b}))"})
    for d, o, m in zip(names, single_out, m_single):
        ctx.case(("rt", d), True)
        if norm(o) != m:
            ctx.violation(f"result_type/{d}/unary", f"result_type({d})={o}", {"observed": o})
    n_assoc = 0
    for (a, b, c), o, m in zip(triples, triple_out, m_triple):
        ctx.evaluations += 1
        ctx.count("result_type:triple")
        lattice = not ({"i", "u", "f"} <= kindset([a, b, c]))
        if lattice:
            n_assoc += 1
            ctx.nontrivial.add(("rt3", a, b, c))
            bc, ab = norm(rt_table[(b, c)]), norm(rt_table[(a, b)])
            left = "TypeError" if bc == "TypeError" else norm(rt_table[(a, bc)])
            right = "TypeError" if ab == "TypeError" else norm(rt_table[(ab, c)])
            if not (left == right == norm(o)):
                ctx.violation(f"result_type/{a},{b},{c}/not-associative",
                              f"result_type({a},result_type({b},{c}))={left}, result_type(result_type({a},{b}),{c})={right}, n-ary={o}",
                              {"triple": [a, b, c], "observed": [left, right, o]})
        if norm(o) != m and lattice:
            ctx.violation(f"result_type/{a},{b},{c}/nary-not-fold",
                          f"result_type({a},{b},{c})={o}, fold of the binary table gives {m}",
                          {"triple": [a, b, c], "observed": o, "expected": m})
        elif norm(o) != m:
            ctx.count("nary-differs-from-left-fold-outside-lattice")
    ctx.extra["triples_inside_lattice"] = n_assoc
    # n-ary promotion: independent of the operand order (commutativity of promotion), and NumPy's n-ary rule for every
    # triple, mixed signed / unsigned / float included (NumPy's n-ary rule is not the left fold there)
    import numpy as _np
    t_out = {t: norm(o) for t, o in zip(triples, triple_out)}
    for (a, b, c), o in t_out.items():
        if (a, b, c) != tuple(sorted((a, b, c))):
            continue
        perms = set(itertools.permutations((a, b, c)))
        outs = {t_out[q] for q in perms}
        if len(outs) > 1:
            ctx.violation(f"result_type/{a},{b},{c}/nary-order-dependent",
                          f"result_type over the permutations of ({a},{b},{c}) gives {sorted(outs)}",
                          {"triple": [a, b, c], "observed": {",".join(q): t_out[q] for q in sorted(perms)}})
        cs = [core_of(x) for x in (a, b, c)]
        nstr = sum(x == "utf8" for x in cs)
        if nstr == 3:
            want = "utf8"
        elif nstr:
            want = "TypeError"
        else:
            want = str(_np.result_type(*[_np.dtype(x) for x in cs]))
        if want != "TypeError" and any(x != core_of(x) for x in (a, b, c)):
            want = "n" + want
        ctx.count("result_type:triple-vs-numpy")
        for q in perms:
            if t_out[q] != want:
                ctx.violation(f"result_type/{a},{b},{c}/nary-differs-from-numpy",
                              f"result_type({','.join(q)})={t_out[q]}, NumPy's n-ary promotion (nullable closure applied) gives {want}",
                              {"triple": list(q), "observed": t_out[q], "expected": want})
                break
    for (d, k, first), o, m in zip(scal_jobs, scal_out, m_scal):
        ctx.case(("promote-scalar", d, k, first), True)
        ctx.count("promote:scalar")
        if norm(o) != m:
            within = {"pbool": "bool", "pstr": "utf8"}.get(k) == core_of(d) or (
                k == "pint" and core_of(d) not in ("bool", "utf8")) or (k == "pfloat" and core_of(d).startswith("float"))
            kind = "scalar-changes-dtype" if within else "scalar-rule"
            ctx.violation(f"promote/{d},{k}/{kind}",
                          f"promote(array {d}, Python {k[1:]} scalar){' reflected' if first else ''} -> {o}, expected {m}",
                          {"dtype": d, "scalar": k, "scalar_first": first, "observed": o, "expected": m})

    # NumPy scalars and arrays are strongly typed operands: promote(array d, numpy e) = result_type(d, e)
    m_rt = {p: m for p, m in zip(pairs, m_pair)}
    for (d, e, form, first, via), o in zip(np_jobs, np_out):
        ctx.case(("promote-numpy", d, e, form, first, via), True)
        ctx.count("promote:numpy-operand")
        m = m_rt[(d, e)]
        if via == "equal" and m != "TypeError":
            m = "nbool" if d.startswith("n") else "bool"
        if norm(o) != m:
            if via != "promote" and (norm(rt_table[(d, e)]) != m_rt[(d, e)] or norm(o) == "TypeError" or norm(o).startswith("!Other")):
                continue  # operator support of the pair is the function matrix's business (C17/C02)
            ctx.violation(f"promote/{d},numpy-{e}/{form}/{via}",
                          f"{via}(array {d}, {form} of {e}){' reflected' if first else ''} -> {o}, expected {m} (= result_type({d}, {e}))",
                          {"dtype": d, "numpy_dtype": e, "form": form, "scalar_first": first, "via": via, "observed": o, "expected": m})

    # ---------------- generated Lean table + laws -----------------------------------------
    prow = ", ".join(f"({IDX[a]}, {IDX[b]}, {enc(o)})" for (a, b), o in zip(pairs, pair_out))
    srow = ", ".join(f"({IDX[d]}, {list(PY_SCALARS).index(k)}, {enc(o)})"
                     for (d, k, first), o in zip(scal_jobs, scal_out) if not first)
    gen.write("ResultType", f"""import NdonnxVerif.Model.GenSupport
/-! Generated by harness/props/c03.py from the running implementation; do not edit.
`pairs`: (a, b, ndonnx.result_type(a, b)) with dtypes as indices into `Ndx.Dt.all`, 24 = TypeError,
25 = any other exception.  `scalars`: (dtype, scalar kind, dtype `promote` casts both operands to). -/
namespace Gen.ResultType
open Ndx Ndx.GenSupport
def pairs : List (Nat × Nat × Nat) := [{prow}]
def scalars : List (Nat × Nat × Nat) := [{srow}]
def pyKind (n : Nat) : PyScalar := match n with | 0 => .pbool | 1 => .pint | 2 => .pfloat | _ => .pstr
theorem pairs_complete : (List.range 24).all (fun a => (List.range 24).all (fun b => look pairs a b != 99)) = true := by
  decide +kernel
/-- The implementation's table is the closed-form lattice join of the model. -/
theorem table_is_model : pairs.all (fun r => r.2.2 == encodeOpt (resultType (Dt.ofIdx r.1) (Dt.ofIdx r.2.1))) = true := by
  decide +kernel
/-- Commutativity, directly on the dumped table. -/
theorem comm : pairs.all (fun r => look pairs r.2.1 r.1 == r.2.2) = true := by decide +kernel
/-- Nullable iff some operand is, directly on the dumped table. -/
theorem nullable_iff : pairs.all (fun r => r.2.2 ≥ 24 ||
    (Dt.ofIdx r.2.2).nullable == ((Dt.ofIdx r.1).nullable || (Dt.ofIdx r.2.1).nullable)) = true := by decide +kernel
/-- Strings never promote with non-strings, directly on the dumped table. -/
theorem string_isolated : pairs.all (fun r =>
    (((Dt.ofIdx r.1).core == .utf8) == ((Dt.ofIdx r.2.1).core == .utf8)) || r.2.2 == 24) = true := by decide +kernel
/-- No promotion ends in a foreign exception. -/
theorem no_foreign_exception : pairs.all (fun r => r.2.2 != 25) = true := by decide +kernel
-- associativity on the dumped table follows from `table_is_model` and `Ndx.C03.assoc_all`
/-- Scalar promotion is the model's rule. -/
theorem scalars_are_model : scalars.all (fun r =>
    r.2.2 == encodeOpt (scalarResult (Dt.ofIdx r.1) (pyKind r.2.1))) = true := by decide +kernel
/-- A Python scalar never changes an array's dtype within its kind (on the dumped table). -/
theorem scalar_keeps_dtype : scalars.all (fun r =>
    !(scalarWithinKind (Dt.ofIdx r.1) (pyKind r.2.1)) || r.2.2 == r.1) = true := by decide +kernel
end Gen.ResultType
""".replace("import NdonnxVerif.Model.GenSupport", "import NdonnxVerif.Model.GenSupport\nimport NdonnxVerif.Props.C03"))

    # ---------------- where / misc functions -----------------------------------------------
    def rt(ds):
        r = ds[0]
        for d in ds[1:]:
            if r == "TypeError":
                break
            r = norm(rt_table.get((r, d), "!TypeError")) if False else m_pair[pairs.index((r, d))]
        return r
    quick = ctx.tier == "quick"
    wjobs = [(ck, a, b) for ck in ("lazy", "lazy-nbool", "py-true", "py-false", "const-true-1d", "const-false-0d")
             for a, b in (pairs if not quick or ck in ("lazy", "py-true") else ctx.rng.sample(pairs, 200))]
    wout = tables.pmap(where_row, wjobs, strict=True)
    for (ck, a, b), o in zip(wjobs, wout):
        want = rt([a, b])
        if want != "TypeError" and ck == "lazy-nbool" and want == core_of(want):
            want = "n" + want
        ctx.case(("where", ck, a, b), True)
        ctx.count("where:" + ck)
        if norm(o) != want:
            if o.startswith("!Other"):
                continue  # exception class is C17's concern
            ctx.violation(f"where/{fntable.dclass(a)}x{fntable.dclass(b)}/{ck}/dtype-{norm(o)}",
                          f"where(<{ck} condition>, {a}, {b}) -> {o}, expected {want}",
                          {"condition": ck, "x": a, "y": b, "observed": o, "expected": want})
    mjobs = []
    for fn in ("concat", "stack", "clip", "matmul"):
        # quick: a sample of the pairs plus the whole diagonal (the only pairs the clip law speaks about)
        ps = pairs if not quick else ctx.rng.sample(pairs, 150) + [(d, d) for d in names]
        mjobs += [(fn, p) for p in dict.fromkeys(ps)]
    for fn in ("clip-pyscalar", "clip-pyscalar-min"):
        mjobs += [(fn, (d,)) for d in names]
    for fn in ("sort", "argsort", "argmax", "argmin", "max", "min", "take", "roll", "flip", "reshape",
               "expand_dims", "squeeze", "permute_dims", "broadcast_to", "zeros_like", "ones_like",
               "full_like", "isin", "getitem", "copy"):
        mjobs += [(fn, (d,)) for d in names]
    mout = tables.pmap(misc_row, mjobs, strict=True)
    for (fn, ds), o in zip(mjobs, mout):
        law = misc_law(fn, ds, rt)
        ctx.evaluations += 1
        ctx.count("misc:" + fn)
        if law is None:
            continue
        ctx.nontrivial.add(("misc", fn, ds))
        if law[0] == "must" and law[1] != "TypeError":
            if o.startswith("!"):
                continue  # totality/exception class belongs to C02/C11/C12/C17
            if o != law[1]:
                ctx.violation(f"{fn}/{'x'.join(fntable.dclass(d) for d in ds)}/dtype-{o}",
                              f"{fn} on {ds} -> {o}, expected {law[1]}",
                              {"function": fn, "operands": ds, "observed": o, "expected": law[1]})
        elif o != "!TypeError" and not o.startswith("!Other"):
            ctx.violation(f"{fn}/{'x'.join(fntable.dclass(d) for d in ds)}/mixes-{o}",
                          f"{fn} on {ds} -> {o}, expected a TypeError (no common dtype)",
                          {"function": fn, "operands": ds, "observed": o})

    # ---------------- function x dtype-tuple matrix ------------------------------------------
    js, outs, laws = fntable.dump(ctx)
    table = fntable.evaluate(ctx, js, outs, laws, {"C03"})
    mods = fntable.write_gen(table)
    gen.check_generated(ctx, ["ResultType"] + mods)
    ctx.extra["exhaustive"] = True
    ctx.extra["tables"] = {"result_type_pairs": len(pairs), "result_type_triples": len(triples),
                           "promote_scalar_rows": len(scal_jobs), "where_rows": len(wjobs),
                           "misc_rows": len(mjobs), "function_matrix_rows": len(js),
                           "function_matrix_rows_in_lean_table": len(table)}
