"""C15 — static metadata of lazy arrays and of the model never contradicts run time.

For every step of random traced programs (all parameterisations the generators produce; static,
symbolic and unknown placeholder dims): the dtype / ndim / shape the array reports before any data
exists, the element type and dims the exported model declares for the output, and the run-time value
of `additional.shape(e)` are compared with what the model produces at two size assignments."""
from __future__ import annotations

import random

import numpy as np

from .. import common, tables

ONNX_ELEM = {1: "float32", 2: "uint8", 3: "int8", 4: "uint16", 5: "int16", 6: "int32", 7: "int64", 8: "utf8",
             9: "bool", 11: "float64", 12: "uint32", 13: "uint64"}


def worker(job):
    from .. import impl, progs
    ndx = impl.ndx
    seed, tier = job
    rng = random.Random(f"c15/{seed}")
    fam = None if seed % 2 else ["index", "index", "layout", "layout", "reduce", "nullable", "creation", "sort", "cast", "where"]
    prog = progs.generate(rng, seed=seed, families=fam, size_generic=True, erase_static=(seed % 4 == 2), sizes={"A": rng.choice([1, 2, 3]), "B": rng.choice([1, 2, 3])})
    if prog is None:
        return None
    n = len(prog["inputs"])
    rec = {"prog": prog, "desc": progs.describe(prog), "cases": [], "fail": []}
    style = rng.choice(["static", "symbolic", "unknown", "mixed"])
    S = set(range(n)) if rng.random() < 0.7 else set(rng.sample(range(n), rng.randrange(1, n + 1)))
    try:
        vals0, arrs, res = progs.trace(prog, S, style, prog["gen_sizes"], seed)
        shapes_as_arrays = [ndx.additional.shape(r) for r in res]
        meta = [{"dtype": impl.dtname(r.dtype), "ndim": r.ndim, "shape": tuple(r.shape)} for r in res]
        ins = {f"i{k}": arrs[k] for k in sorted(S)}
        outs = {f"o{j}": r for j, r in enumerate(res)}
        outs.update({f"s{j}": s for j, s in enumerate(shapes_as_arrays)})
        model = ndx.build(ins, outs)
        sess = impl.session(model)
    except Exception as e:
        return rec      # tracing/export failures are C01/C05's concern
    declared = {}
    for o in model.graph.output:
        tt = o.type.tensor_type
        dims = [(d.dim_value if d.HasField("dim_value") else (d.dim_param or None)) for d in tt.shape.dim] if tt.HasField("shape") else None
        declared[o.name] = (ONNX_ELEM.get(tt.elem_type, str(tt.elem_type)), dims)
    onames = [o.name for o in sess.get_outputs()]
    names = sorted({d for i in prog["inputs"] for d in i["dims"] if isinstance(d, str) and d != "U"})
    assigns = [prog["gen_sizes"]]
    if style != "static" and names and not progs.crash_prone(prog):
        assigns.append({**prog["gen_sizes"], **{k: rng.choice([0, 1, 2, 3, 5]) for k in names}})
    for sizes in assigns:
        sizes = {**sizes, "U": 1}
        if any(k not in S and any(isinstance(d, str) and sizes[d] != prog["gen_sizes"][d] for d in prog["inputs"][k]["dims"]) for k in range(n)):
            continue
        try:
            vals = progs.eager_inputs(prog, sizes, seed)
            feeds = {}
            for k in sorted(S):
                feeds.update(impl.feed(f"i{k}", vals[k], prog["inputs"][k]["dtype"]))
            raw = dict(zip(onames, sess.run(None, feeds)))
        except Exception:
            continue       # not admissible at these sizes
        case = {"lazy": sorted(S), "style": style, "sizes": {k: sizes[k] for k in names}}
        rec["cases"].append(case)

        def first_problems(raw):
            """(step, op, problems, static meta, run-time value) of the first step whose report contradicts `raw`."""
            for j, (r, m) in enumerate(zip(res, meta)):
                op = prog["steps"][j]["op"]
                fields = [f"o{j}_values", f"o{j}_null"] if impl.is_nullable(m["dtype"]) else [f"o{j}"]
                core = m["dtype"][1:] if impl.is_nullable(m["dtype"]) else m["dtype"]
                got = raw[fields[0]]
                rt_dtype = "utf8" if got.dtype.kind in "OU" else str(got.dtype)
                problems = []
                if rt_dtype != core:
                    problems.append(("dtype", core, rt_dtype))
                if m["ndim"] != got.ndim:
                    problems.append(("ndim", m["ndim"], got.ndim))
                else:
                    for a, (st, rtv) in enumerate(zip(m["shape"], got.shape)):
                        if isinstance(st, int) and st != rtv:
                            problems.append((f"shape[{a}]", st, rtv))
                for f in fields:
                    et, dims = declared[f]
                    want_et = "bool" if f.endswith("_null") else core
                    if et != want_et:
                        problems.append((f"declared-elem-type:{f}", et, want_et))
                    if dims is not None:
                        if len(dims) != raw[f].ndim:
                            problems.append((f"declared-rank:{f}", len(dims), raw[f].ndim))
                        else:
                            for a, (dd, rtv) in enumerate(zip(dims, raw[f].shape)):
                                if isinstance(dd, int) and dd != rtv:
                                    problems.append((f"declared-dim[{a}]:{f}", dd, rtv))
                sv = raw[f"s{j}"]
                if list(map(int, sv.tolist())) != list(got.shape) or str(sv.dtype) != "int64":
                    problems.append(("shape-as-array", sv.tolist(), list(got.shape)))
                if problems:
                    return j, op, problems, m, got
            return None

        found = first_problems(raw)
        if found is not None:
            j, op, problems, m, got = found
            # is the exported model at fault, or onnxruntime's graph optimiser?  (same model, optimisations disabled)
            suffix = ""
            try:
                raw0 = dict(zip(onames, impl.session(model, optimise=False).run(None, feeds)))
                if first_problems(raw0) is None:
                    suffix = "-only-with-onnxruntime-graph-optimizations"
            except Exception:
                pass
            for what, static, runtime in problems:
                rec["fail"].append({**case, "kind": what.split(":")[0].split("[")[0] + "-contradicts-run-time" + suffix, "step": j, "op": op,
                                    "cause": style, "detail": {"what": what, "reported": static, "run_time": runtime,
                                                               "reported_shape": list(m["shape"]), "run_time_shape": list(got.shape)}})
    return rec


def run(ctx: common.Ctx):
    ctx.extra["rule"] = (
        "random traced programs (static / symbolic / unknown / mixed placeholder dims); for every step: reported "
        "dtype, ndim and integer extents, the model's declared output element types and dims, and the run-time value "
        "of additional.shape are compared with the outputs of the exported model at the generation sizes and at a second "
        "size assignment; distinct = distinct (program, partition, style, sizes); non-trivial = the step's static shape has "
        "at least one integer extent or rank > 0")
    n = 300 if ctx.tier == "quick" else 3000
    recs = tables.pmap(worker, [(ctx.seed * 100003 + k, ctx.tier) for k in range(n)], chunk=4)
    from .c06 import report_sized
    report_sized(ctx, recs)
    # systematic `x[index]` metadata sweep incl. slices outside the standard's bounds, and the tie to the Lean model
    # of the reported dims (Model/StaticShape.lean, theorem Ndx.C15.static_getitem_sound)
    from .. import statictie
    statictie.run(ctx, ctx.tier == "quick")
