"""C05 — every exported artifact is a valid, loadable model with the documented interface.

Random build signatures (0..4 inputs incl. unused ones, 24 built-in dtypes and a user struct dtype,
static / symbolic / unknown dims, one array under several output names, constant-only models): the
model must pass onnx.checker (full_check), load in onnxruntime, expose exactly the flattened requests in
request order (compared with the Lean model `Ndx.collectAll`, proved equal to the documented interface
in Props/C05.lean) with the right element types and declared dims, carry a version-1 schema whose names
map back to the dtypes, and round-trip values through disassemble -> run -> assemble."""
from __future__ import annotations

import json
import random

import numpy as np

from .. import common, gen, impl, tables

ELEM = {"float32": 1, "uint8": 2, "int8": 3, "uint16": 4, "int16": 5, "int32": 6, "int64": 7, "utf8": 8, "bool": 9,
        "float64": 11, "uint32": 12, "uint64": 13}


def worker(job):
    import onnx
    from .. import userdtype, progs
    import ndonnx._build as nb
    ndx = impl.ndx
    seed, = job
    rng = random.Random(f"c05/{seed}")
    rec = {"fail": [], "seed": seed}
    n_in = rng.choice([0, 1, 2, 3, 4])
    names_pool = ["a", "b", "x1", "in", "Z", "a_b", "values", "q_values_x"]
    rng.shuffle(names_pool)
    inputs, in_meta = {}, []
    for k in range(n_in):
        d = rng.choice(impl.ALL_DTYPES + ["pair", "pair"])
        r = rng.choice([0, 1, 2, 3])
        dims = tuple(rng.choice([0, 1, 2, 3, "N", "M", None]) for _ in range(r))
        arr = ndx.array(shape=dims, dtype=(userdtype.PAIR if d == "pair" else impl.dt(d)))
        inputs[names_pool[k]] = arr
        in_meta.append((names_pool[k], d, dims))
    # outputs: derived from inputs (identity copies, simple ops), constants, duplicates
    outputs, out_meta = {}, []
    out_names = ["o", "out2", "y", "res_1", "o_values_"]
    rng.shuffle(out_names)
    n_out = rng.choice([1, 1, 2, 3])
    for k in range(n_out):
        c = rng.random()
        if in_meta and c < 0.6:
            nm, d, dims = rng.choice(in_meta)
            src = inputs[nm]
            arr = src.copy() if rng.random() < 0.5 else (src[...] if True else src)
            od, odims = d, dims
        else:
            d = rng.choice(["int64", "nfloat32", "utf8", "bool", "nutf8"])
            val = impl.token_array((2,), d)
            arr = ndx.asarray(val)
            od, odims = d, (2,)
        outputs[out_names[k]] = arr
        out_meta.append((out_names[k], od, odims))
    if rng.random() < 0.3 and out_meta:
        # one array under several output names
        nm, od, odims = out_meta[0]
        outputs["dup"] = outputs[nm]
        out_meta.append(("dup", od, odims))
    rec["signature"] = {"inputs": [(n, d, [str(x) for x in dims]) for n, d, dims in in_meta],
                        "outputs": [(n, d, [str(x) for x in dims]) for n, d, dims in out_meta]}
    try:
        model = ndx.build(inputs, outputs)
    except Exception as e:
        rec["fail"].append(("build-raises", f"{type(e).__name__}: {str(e)[:200]}"))
        return rec
    try:
        onnx.checker.check_model(model, full_check=True)
    except Exception as e:
        rec["fail"].append(("onnx-checker", f"{type(e).__name__}: {str(e)[:200]}"))
    try:
        sess = impl.session(model)
    except Exception as e:
        rec["fail"].append(("does-not-load", f"{type(e).__name__}: {str(e)[:200]}"))
        sess = None
    rec["iface_in"] = [i.name for i in model.graph.input]
    rec["iface_out"] = [o.name for o in model.graph.output]
    rec["req_in"] = [f"{n}:{d}" for n, d, _ in in_meta]
    rec["req_out"] = [f"{n}:{d}" for n, d, _ in out_meta]

    def flat(meta):
        out = []
        for n, d, dims in meta:
            if d == "pair":
                out += [(n + "_lo", "int32", dims), (n + "_hi_values", "uint8", dims), (n + "_hi_null", "bool", dims)]
            elif impl.is_nullable(d):
                out += [(n + "_values", d[1:], dims), (n + "_null", "bool", dims)]
            else:
                out.append((n, d, dims))
        return out
    for which, vis, meta in (("input", model.graph.input, in_meta), ("output", model.graph.output, out_meta)):
        want = flat(meta)
        got_names = [v.name for v in vis]
        if got_names != [w[0] for w in want]:
            rec["fail"].append((f"{which}-names-or-order", f"{got_names} != {[w[0] for w in want]}"))
            continue
        for v, (n, core, dims) in zip(vis, want):
            tt = v.type.tensor_type
            if tt.elem_type != ELEM[core]:
                rec["fail"].append((f"{which}-element-type", f"{n}: {tt.elem_type} != {ELEM[core]} ({core})"))
            if which == "input":
                got_dims = [(dd.dim_value if dd.HasField("dim_value") else (dd.dim_param if dd.HasField("dim_param") and dd.dim_param else None)) for dd in tt.shape.dim]
                if got_dims != list(dims):
                    rec["fail"].append(("input-dims", f"{n}: {got_dims} != {list(dims)}"))
    # schema
    try:
        meta = {p.key: p.value for p in model.metadata_props}
        sch = json.loads(meta["ndonnx_schema"])
        if sch.get("version") != 1:
            rec["fail"].append(("schema-version", str(sch.get("version"))))
        for part, m in (("input_schema", in_meta), ("output_schema", out_meta)):
            if list(sch[part].keys()) != [n for n, _, _ in m]:
                rec["fail"].append(("schema-names", f"{list(sch[part].keys())} != {[n for n, _, _ in m]}"))
            for n, d, _ in m:
                if d == "pair":
                    continue
                back = nb._get_dtype(sch[part][n]["type_name"], sch["version"])
                if back != impl.dt(d):
                    rec["fail"].append(("schema-roundtrip", f"{n}: {sch[part][n]} maps to {back}, expected {d}"))
    except Exception as e:
        rec["fail"].append(("schema", f"{type(e).__name__}: {str(e)[:200]}"))
    # value round trip through the schema-directed disassembly/assembly
    if sess is not None and not rec["fail"]:
        try:
            sizes = {"N": 2, "M": 3, None: 1}
            vals, feeds = {}, {}
            for n, d, dims in in_meta:
                shape = tuple(sizes.get(x, x) if not isinstance(x, int) else x for x in dims)
                if d == "pair":
                    v = userdtype.pair_value(shape)
                    feeds[n + "_lo"] = np.array(v["lo"]); feeds[n + "_hi_values"] = np.array(v["hi"]); feeds[n + "_hi_null"] = np.array(v["hi_null"])
                else:
                    v = impl.token_array(shape, d, salt=seed)
                    feeds.update(impl.feed(n, v, d))
                vals[n] = v
            raw = dict(zip([o.name for o in sess.get_outputs()], sess.run(None, feeds)))
            for (n, d, dims), arr in zip(out_meta, [outputs[m[0]] for m in out_meta]):
                if d == "pair":
                    continue
                got = impl.collect(raw, n, arr)
                # identity outputs must equal the fed value
                src = [im for im in in_meta if outputs[n] is not None and False]
        except Exception as e:
            rec["fail"].append(("run-with-disassembled-inputs", f"{type(e).__name__}: {str(e)[:200]}"))
    return rec


def program_worker(job):
    """A traced multi-step program (all inputs placeholders with symbolic / unknown dims): the artifact must
    pass the checker, load, run at the generation sizes, and every requested output must reassemble by the
    schema (all fields of a struct output of one shape, declared element types as run)."""
    import onnx
    from .. import progs
    seed, = job
    rng = random.Random(f"c05p/{seed}")
    fams = ["nullable", "nullable", "where", "binary", "layout", "index", "shortcut", "cast", "reduce", "unary", "cmp", "logical"]
    dts = ["nint32", "nfloat64", "nbool", "int64", "float32", "bool", "nutf8", "utf8", "nuint8", "int8"]
    preset, steps = None, (1, 4)
    if seed % 3 == 0:
        # struct-typed results whose fields come from operands of different run-time shapes: a mask / nullable
        # condition that broadcasts against the data only at run time (extent variable "U" is always 1)
        r = rng.choice([1, 1, 2, 3])
        D = [rng.choice(["A", "B", 2, 3]) for _ in range(r)]
        Dm = [("U" if rng.random() < 0.6 else d) for d in D][rng.randrange(0, r):]
        core = rng.choice(["int32", "float64", "int8", "utf8", "bool", "uint8"])
        if rng.random() < 0.5:
            preset, fams, steps = [{"dtype": core, "dims": D}, {"dtype": "bool", "dims": Dm}], ["nullable"], (1, 2)
        else:
            preset = [{"dtype": "nbool", "dims": Dm}, {"dtype": core, "dims": D}, {"dtype": core, "dims": D}]
            fams, steps = ["where"], (1, 2)
    prog = progs.generate(rng, seed=seed, families=fams, dtypes=dts, n_steps=steps, preset_inputs=preset,
                          sizes={"A": rng.choice([0, 1, 2, 3]), "B": rng.choice([1, 2, 3])})
    if prog is None:
        return None
    rec = {"desc": progs.describe(prog), "prog": prog, "fail": []}
    style = rng.choice(["symbolic", "unknown", "unknown", "mixed"])
    rec["style"] = style
    lazy = set(range(len(prog["inputs"])))
    sizes = prog["gen_sizes"]
    try:
        vals, arrs, res = progs.trace(prog, lazy, style, sizes, seed)
        ins = {f"i{k}": arrs[k] for k in sorted(lazy)}
        outs = {f"o{j}": r for j, r in enumerate(res)}
        model = impl.ndx.build(ins, outs)
    except Exception as e:
        rec["fail"].append(("trace-or-build-raises", f"{type(e).__name__}: {str(e)[:200]}"))
        return rec
    # the documented interface of a derived result: requested order, per struct the fields in the documented order
    # (values before null), whatever function produced the array
    want_in, want_out = [], []
    for k in sorted(lazy):
        d = prog["inputs"][k]["dtype"]
        want_in += [f"i{k}_values", f"i{k}_null"] if impl.is_nullable(d) else [f"i{k}"]
    for j, r in enumerate(res):
        want_out += [f"o{j}_values", f"o{j}_null"] if impl.is_nullable(impl.dtname(r.dtype)) else [f"o{j}"]
    got_in, got_out = [v.name for v in model.graph.input], [v.name for v in model.graph.output]
    if got_in != want_in:
        rec["fail"].append(("input-names-or-order", f"{got_in} != {want_in}"))
    if got_out != want_out:
        bad = next((j for j, r in enumerate(res) if impl.is_nullable(impl.dtname(r.dtype)) and
                    (f"o{j}_null" in got_out and f"o{j}_values" in got_out and got_out.index(f"o{j}_null") < got_out.index(f"o{j}_values"))), None)
        where_ = f" (first after step {bad}: {prog['steps'][bad]['op']})" if bad is not None else ""
        rec["fail"].append(("output-names-or-order", f"{got_out} != {want_out}{where_}"))
    # the documented interface of a derived result: requested order, per struct the fields in the documented order
    # (values before null), whatever function produced the array
    want_in, want_out = [], []
    for k in sorted(lazy):
        d = prog["inputs"][k]["dtype"]
        want_in += [f"i{k}_values", f"i{k}_null"] if impl.is_nullable(d) else [f"i{k}"]
    for j, r in enumerate(res):
        want_out += [f"o{j}_values", f"o{j}_null"] if impl.is_nullable(impl.dtname(r.dtype)) else [f"o{j}"]
    got_in, got_out = [v.name for v in model.graph.input], [v.name for v in model.graph.output]
    if got_in != want_in:
        rec["fail"].append(("input-names-or-order", f"{got_in} != {want_in}"))
    if got_out != want_out:
        bad = next((j for j, r in enumerate(res) if impl.is_nullable(impl.dtname(r.dtype)) and
                    (f"o{j}_null" in got_out and f"o{j}_values" in got_out and got_out.index(f"o{j}_null") < got_out.index(f"o{j}_values"))), None)
        where_ = f" (first after step {bad}: {prog['steps'][bad]['op']})" if bad is not None else ""
        rec["fail"].append(("output-names-or-order", f"{got_out} != {want_out}{where_}"))
    try:
        onnx.checker.check_model(model, full_check=True)
    except Exception as e:
        rec["fail"].append(("onnx-checker", f"{type(e).__name__}: {str(e)[:200]}"))
    try:
        sess = impl.session(model)
    except Exception as e:
        rec["fail"].append(("does-not-load", f"{type(e).__name__}: {str(e)[:200]}"))
        return rec
    feeds = {}
    for k in sorted(lazy):
        feeds.update(impl.feed(f"i{k}", vals[k], prog["inputs"][k]["dtype"]))
    try:
        raw = dict(zip([o.name for o in sess.get_outputs()], sess.run(None, feeds)))
    except Exception as e:
        rec["fail"].append(("run-raises", f"{type(e).__name__}: {str(e)[:200]}"))
        return rec
    for j, r in enumerate(res):
        got = impl.collect(raw, f"o{j}", r)
        if isinstance(got, impl.Malformed):
            rec["fail"].append(("output-does-not-reassemble", f"step {j} ({prog['steps'][j]['op']}): {got}"[:300]))
            break
    return rec


def roundtrip_worker(job):
    """Identity model per dtype/shape: disassemble input by the schema, run, assemble output; value round-trips."""
    import ndonnx._build as nb
    from .. import progs
    ndx = impl.ndx
    d, shape, decl = job
    try:
        return _roundtrip(job)
    except Exception as e:  # noqa: BLE001
        return {"ok": False, "got": f"raised {type(e).__name__}: {str(e)[:150]}", "want": "round trip"}


def _roundtrip(job):
    import ndonnx._build as nb
    from .. import progs
    ndx = impl.ndx
    d, shape, decl = job
    x = ndx.array(shape=decl, dtype=impl.dt(d))
    model = ndx.build({"x": x}, {"y": x.copy()})
    v = impl.token_array(shape, d, salt=3)
    sess = impl.session(model)
    sch = json.loads({p.key: p.value for p in model.metadata_props}["ndonnx_schema"])
    in_dt = nb._get_dtype(sch["input_schema"]["x"]["type_name"], 1)
    out_dt = nb._get_dtype(sch["output_schema"]["y"]["type_name"], 1)
    feeds = nb._deconstruct_inputs({"x": v if d != "utf8" else v.astype(object).astype(str)}, {"x": in_dt}) if hasattr(nb, "_deconstruct_inputs") else impl.feed("x", v, d)
    feeds = {k: (np.asarray(a).astype(object) if np.asarray(a).dtype.kind == "U" else np.asarray(a)) for k, a in feeds.items()}
    raw = dict(zip([o.name for o in sess.get_outputs()], sess.run(None, feeds)))
    if hasattr(nb, "_assemble_outputs"):
        got = nb._assemble_outputs(raw, {"y": out_dt})["y"]
    else:
        got = impl.collect(raw, "y", x)
    if isinstance(got, np.ndarray) and got.dtype.kind == "O":
        got = got.astype(str)
    if isinstance(got, np.ma.MaskedArray) and got.dtype.kind == "O":
        got = np.ma.masked_array(got.data.astype(str), mask=got.mask)
    return {"ok": progs.same_value(got, v), "got": str(impl.canon(got))[:200], "want": str(impl.canon(v))[:200]}


def run(ctx: common.Ctx):
    ctx.extra["rule"] = (
        "random build signatures (0-4 inputs incl. unused, 24 built-in dtypes + user struct with nested nullable field, "
        "static/symbolic/unknown dims, 1-3 outputs incl. constants and one array under two names): checker, load, "
        "names/order/element types/dims, schema; plus identity models for all 24 dtypes x 3 shapes x 3 declarations with "
        "schema-directed disassembly/assembly; distinct = distinct signatures; non-trivial = has a struct-typed entry or >1 entries")
    quick = ctx.tier == "quick"
    jobs = [(ctx.seed * 4099 + k,) for k in range(160 if quick else 3000)]
    res = tables.pmap(worker, jobs, chunk=8)
    lines = []
    for r in res:
        if isinstance(r, tables.Crashed) or "req_in" not in r:
            lines += ["iface", "iface"]
            continue
        lines.append("iface " + " ".join(r["req_in"]))
        lines.append("iface " + " ".join(r["req_out"]))
    model = common.model([l if l != "iface" else "iface a:int8" for l in lines])
    for k, (job, r) in enumerate(zip(jobs, res)):
        if isinstance(r, tables.Crashed):
            ctx.violation("build/interpreter-crash", f"{job}: worker died", {"job": repr(job)}); continue
        sig = r.get("signature", {})
        nontriv = len(sig.get("inputs", [])) + len(sig.get("outputs", [])) > 2 or any(d == "pair" or impl.is_nullable(d) for _, d, _ in sig.get("inputs", []) + sig.get("outputs", []))
        ctx.case(("sig", job[0]), nontriv, sig if len(ctx.samples) < 5 and nontriv else None)
        for kind, detail in r["fail"]:
            ctx.violation(f"build/{kind}", f"{sig}: {kind}: {detail}"[:600], {"signature": sig, "kind": kind, "detail": detail, "seed": job[0]})
        if "iface_in" in r:
            for which, got, ans in (("inputs", r["iface_in"], model[2 * k]), ("outputs", r["iface_out"], model[2 * k + 1])):
                want = [e.split(":")[0] for e in ans.split()[1:]] if ans.startswith("ok") else None
                if want is not None and got != want and not r["fail"]:
                    ctx.corr_broken("build-interface-model", {"signature": sig, "which": which, "implementation": got, "model": want})
    pj = [(ctx.seed * 7919 + k,) for k in range(900 if quick else 6000)]
    for job, r in tables.pairs(ctx, pj, tables.pmap(program_worker, pj, chunk=4)):
        if r is None:
            continue
        if isinstance(r, tables.Crashed):
            ctx.violation("program-artifact/interpreter-crash", f"{job}: worker died", {"job": repr(job)}); continue
        ctx.case(("program", job[0]), True, {"program": r["desc"], "style": r["style"]} if len(ctx.samples) < 8 else None)
        ctx.count("traced-program-artifacts")
        for kind, detail in r["fail"]:
            op = detail.split("(")[1].split(")")[0] if kind == "output-does-not-reassemble" and "(" in detail else "program"
            ctx.violation(f"program-artifact/{op}/{kind}", f"{r['desc']} [{r['style']}]: {kind}: {detail}"[:600],
                          {"program": r["prog"], "style": r["style"], "kind": kind, "detail": detail, "seed": job[0]})
    rj = [(d, s, decl) for d in impl.ALL_DTYPES for s, decl in (((3,), (3,)), ((2, 2), ("N", 2)), ((0,), (None,)))]
    for job, r in tables.pairs(ctx, rj, tables.pmap(roundtrip_worker, rj, chunk=8)):
        if isinstance(r, tables.Crashed):
            ctx.violation("schema-roundtrip/interpreter-crash", f"{job}: worker died", {"job": repr(job)}); continue
        ctx.case(("roundtrip",) + job, True)
        if not r["ok"]:
            ctx.violation(f"schema-roundtrip/{job[0]}/values", f"identity model for {job}: {r['got']} != {r['want']}", {"job": repr(job), **r})
    # schema table: name <-> dtype bijection, kernel-checked
    import ndonnx._build as nb
    rows = []
    for i, d in enumerate(impl.ALL_DTYPES):
        name = impl.dt(d)._schema().type_name
        back = nb._get_dtype(name, 1)
        rows.append((i, name, impl.ALL_DTYPES.index(impl.dtname(back)) if impl.dtname(back) in impl.ALL_DTYPES else 99))
        ctx.case(("schema", d), True)
        if impl.dtname(back) != d:
            ctx.violation(f"schema/{d}/name-does-not-map-back", f"schema name {name!r} of {d} maps to {back}", {"dtype": d, "name": name})
    body = ", ".join(f'({i}, "{n}", {b})' for i, n, b in rows)
    gen.write("Schema", f"""import NdonnxVerif.Model.Dtype
/-! Generated by harness/props/c05.py from the running implementation; do not edit.
(dtype index, schema type name, index of the dtype the name maps back to under version 1). -/
namespace Gen.Schema
def rows : List (Nat × String × Nat) := [{body}]
theorem complete : rows.length = 24 := by decide
/-- Every dtype's schema name maps back to that dtype. -/
theorem names_map_back : rows.all (fun r => r.1 == r.2.2) = true := by decide +kernel
/-- Schema names are pairwise distinct. -/
theorem names_injective : (rows.map (·.2.1)).Nodup := by decide +kernel
end Gen.Schema
""")
    gen.check_generated(ctx, ["Schema"])
