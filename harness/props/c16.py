"""C16 — without onnxruntime at trace time, exported models compute the same results.

Random programs are traced twice with the same partition into constants and placeholders: in this
process (onnxruntime present) and in a child interpreter where importing onnxruntime raises
ImportError (no source hook).  Both serialized models are run here and compared output by output; the
child must report no value for any derived array; the state-machine correspondence of C07 is repeated
with onnxruntime absent.  Props/C16.lean proves the equivalence on the propagation model."""
from __future__ import annotations

import base64
import itertools
import random

import numpy as np

from .. import common, heapcorr, noort, tables


def chunk_worker(job):
    """A chunk of programs: trace here and in the child; run both models; compare."""
    from .. import impl, progs
    import onnx
    ndx = impl.ndx
    seeds, tier = job
    cases = []
    for seed in seeds:
        rng = random.Random(f"c16/{seed}")
        fam = None if seed % 3 else ["shortcut", "where", "reduce", "logical", "inplace", "index", "layout", "creation"]
        if seed % 3 == 1:
            # operations applied to the results of selections: without the evaluator those results have unknown static
            # extents even when every input holds data, so anything decided from static extents is exercised
            fam = ["index", "layout", "layout", "layout", "reduce", "sort"]
        prog = progs.generate(rng, seed=seed, families=fam, n_steps=(2, 5) if seed % 3 == 1 else (1, 6), erase_static=(seed % 3 == 1),
                              sizes={"A": rng.choice([0, 1, 2, 3]), "B": rng.choice([1, 2, 3])})
        if prog is None:
            continue
        n = len(prog["inputs"])
        subsets = [set(c) for k in range(0, n + 1) for c in itertools.combinations(range(n), k)]
        for S in (rng.sample(subsets, min(len(subsets), 2)) if tier == "quick" else subsets):
            cases.append({"prog": prog, "lazy": sorted(S), "style": rng.choice(["static", "symbolic", "unknown"]),
                          "sizes": prog["gen_sizes"], "seed": seed})
    if 0 in seeds or any(sd % 40 == 0 for sd in seeds):
        # directed: casts whose text depends on who performs them (NumPy vs the ONNX Cast operator) applied to arrays derived
        # from data-holding inputs -- the evaluator's presence must not decide which one runs
        for src in ("float64", "float32", "bool", "int32", "nfloat64"):
            for first in ({"op": "multiply", "args": [["in", 0], ["py", 2]], "params": {}}, {"op": "greater", "args": [["in", 0], ["py", 1]], "params": {}},
                          {"op": "copy", "args": [["in", 0]], "params": {}}):
                if src == "bool" and first["op"] != "copy":
                    first = {"op": "logical_not", "args": [["in", 0]], "params": {}}
                tgt = "nutf8" if src.startswith("n") else "utf8"
                prog = {"inputs": [{"dtype": src, "dims": [3]}],
                        "steps": [first, {"op": "astype", "args": [["st", 0]], "params": {"dtype": tgt}},
                                  {"op": "astype", "args": [["in", 0]], "params": {"dtype": tgt}}],
                        "gen_sizes": {"A": 2, "B": 3, "U": 1}, "seed": 1}
                for S in ([], [0]):
                    cases.append({"prog": prog, "lazy": S, "style": "static", "sizes": prog["gen_sizes"], "seed": 1})
    child = noort.trace_without_ort(cases)
    recs = []
    for case, crec in zip(cases, child):
        prog, S = case["prog"], set(case["lazy"])
        rec = {"prog": prog, "desc": progs.describe(prog), "cases": [{"lazy": case["lazy"], "style": case["style"]}], "fail": []}
        recs.append(rec)
        base = {"lazy": case["lazy"], "style": case["style"]}
        try:
            vals, arrs, res = progs.trace(prog, S, case["style"], case["sizes"], case["seed"])
            model, outs = progs.build_and_run(prog, S, arrs, res, [vals])
        except Exception as e:
            # does not trace/export with onnxruntime present either: nothing to compare (C01's concern)
            rec["cases"] = []
            continue
        if "error" in crec:
            rec["fail"].append({**base, "kind": "raises-without-onnxruntime", "step": None, "op": None, "detail": crec["error"]})
            continue
        # "reports no value for derived arrays": a value may survive only where no operator was needed
        # (copies, same-dtype casts, value-dependent shortcuts returning an operand); such values are
        # constants of the exported model and are compared below like every other output
        rec["valued_without_ort"] = sum(bool(v) for v in crec["valued"])
        # same outputs
        try:
            m2 = onnx.load_from_string(base64.b64decode(crec["model"]))
            sess = impl.session(m2)
            names = [o.name for o in sess.get_outputs()]
            feeds = {}
            for k in sorted(S):
                feeds.update(impl.feed(f"i{k}", vals[k], prog["inputs"][k]["dtype"]))
            raw = dict(zip(names, sess.run(None, feeds)))
        except Exception as e:
            rec["fail"].append({**base, "kind": "model-traced-without-onnxruntime-does-not-run", "step": None, "op": None,
                                "detail": f"{type(e).__name__}: {str(e)[:300]}"})
            continue
        for j, r in enumerate(res):
            try:
                got = impl.collect(raw, f"o{j}", r)
            except KeyError:
                rec["fail"].append({**base, "kind": "interface-differs", "step": j, "op": prog["steps"][j]["op"]})
                break
            if not progs.same_value(got, outs[0][j]):
                # the two exported models, or onnxruntime's graph optimiser?  (both models, optimisations disabled)
                suffix = ""
                try:
                    sess0 = impl.session(m2, optimise=False)
                    raw0 = dict(zip([o.name for o in sess0.get_outputs()], sess0.run(None, feeds)))
                    _, outs0 = progs.build_and_run(prog, S, arrs, res, [vals], optimise=False)
                    if all(progs.same_value(impl.collect(raw0, f"o{q}", rq), outs0[0][q]) for q, rq in enumerate(res)):
                        suffix = "-only-with-onnxruntime-graph-optimizations"
                except Exception:
                    pass
                rec["fail"].append({**base, "kind": progs.diff_kind(got, outs[0][j]) + suffix, "step": j, "op": prog["steps"][j]["op"],
                                    "cause": progs.step_cause(prog, j, S),
                                    "with_ort": str(impl.canon(outs[0][j]))[:300], "without_ort": str(impl.canon(got))[:300]})
                break
    return recs


def run(ctx: common.Ctx):
    ctx.extra["rule"] = (
        "random programs x partitions (2 per program in quick, all in thorough) traced with onnxruntime present and, "
        "in a child interpreter with an import blocker, absent; serialized models run here and compared output by "
        "output; derived arrays must report no value in the child; plus the _CoreArray history correspondence "
        "with onnxruntime absent; distinct = distinct (program, partition, style); non-trivial = has a compute step")
    # state machine, onnxruntime absent
    rng = ctx.rng
    nh = 200 if ctx.tier == "quick" else 2000
    hist = [heapcorr.gen_history(rng, rng.randint(4, 14)) for _ in range(nh)]
    want = common.model(heapcorr.model_lines(hist, False))
    got = heapcorr.run_impl_no_ort(hist)
    hs = [heapcorr.gen_history_shortcuts(rng, rng.randint(5, 14)) for _ in range(nh)]
    for h, w, g in zip(hs, common.model(heapcorr.model_lines(hs, False)), heapcorr.run_impl_no_ort(hs)):
        if g == "skip":
            ctx.count("shortcut-history-skipped-equal-branches")
            continue
        ctx.case(("hist-shortcut", tuple(h)), any(s.startswith("gw") for s in h), {"history": h, "flags": g} if len(ctx.samples) < 5 else None)
        ctx.count("shortcut-history-steps", len(h))
        if w != g:
            ctx.violation("corearray-history-no-ort/shortcut-flags-differ", f"history {' '.join(h)}: implementation {g}, model {w}",
                          {"history": h, "implementation": g, "model": w})
    for h, w, g in zip(hist, want, got):
        ctx.case(("hist", tuple(h)), True)
        if w != g:
            ctx.violation("corearray-history-without-onnxruntime/flags-differ",
                          f"history {' '.join(h)}: implementation {g}, model {w}", {"history": h, "implementation": g, "model": w})
    ctx.extra["histories_without_onnxruntime"] = nh
    n = 240 if ctx.tier == "quick" else 2400
    seeds = [ctx.seed * 100003 + k for k in range(n)]
    chunks = [(seeds[i:i + 20], ctx.tier) for i in range(0, n, 20)]
    all_recs = tables.pmap(chunk_worker, chunks, workers=8, chunk=1)
    all_recs = [r if isinstance(r, list) else [r] for r in all_recs]
    from .c01 import report
    report(ctx, [r for rs in all_recs for r in rs if isinstance(r, (tables.Crashed, tables.WorkerError)) or r["cases"]], "C16")
