"""C14 — casts convert values like NumPy, keep the mask, and never drop nulls silently.

Tie (A): the 24 x 24 astype outcome matrix (result dtype / CastError / other) and can_cast on all core
pairs are dumped from the implementation, compared with the Lean model (`Ndx.castOutcome`,
`Ndx.canCastCore`) and re-checked by the kernel in Gen/CastMatrix.lean.  Values: every ordered pair x
boundary values of the source type that are in range of the target, masks (none / partial / full),
eager and traced, vs ndarray.astype; same-dtype casts must yield an equal, independent array."""
from __future__ import annotations

import itertools
import warnings

import numpy as np

from .. import common, gen, impl, tables
from ..impl import ALL_DTYPES, CORE

IDX = {d: i for i, d in enumerate(ALL_DTYPES)}


def outcome_row(job):
    a, b, mode = job
    ndx = impl.ndx
    if mode == "lazy":
        x = ndx.array(shape=("N",), dtype=impl.dt(a))
    elif a.endswith("utf8"):
        v = np.array(["1", "0"])      # text that denotes numbers: text -> number of arbitrary text is a data error, not a dtype matter
        x = ndx.asarray(np.ma.masked_array(v, mask=[False, True]) if impl.is_nullable(a) else v)
    else:
        x = ndx.asarray(impl.token_array((2,), a))
    try:
        r = ndx.astype(x, impl.dt(b))
        return impl.dtname(r.dtype)
    except ndx.CastError:
        return "!CastError"
    except TypeError:
        return "!TypeError"
    except Exception as e:  # noqa: BLE001
        return f"!Other:{type(e).__name__}"


def cancast_row(job):
    a, b = job
    ndx = impl.ndx
    try:
        return str(bool(ndx.can_cast(impl.dt(a), impl.dt(b))))
    except TypeError:
        return "!TypeError"
    except Exception as e:  # noqa: BLE001
        return f"!Other:{type(e).__name__}"


def source_values(src, dst):
    """Boundary values of `src` that are in range for `dst` (the property's 'in-range source values')."""
    s = src[1:] if impl.is_nullable(src) else src
    d = dst[1:] if impl.is_nullable(dst) else dst
    if s == "bool":
        vals = np.array([False, True, True, False])
    elif s == "utf8":
        if d in impl.INTS:
            ii = np.iinfo(d)
            vals = np.array([str(v) for v in [0, 1, 7, ii.max, ii.min, 12]])
        elif d in impl.FLOATS:
            vals = np.array(["0", "1.5", "-2.25", "100", "1e3"])
        elif d == "bool":
            return None      # text -> bool is not defined by the property (NumPy: non-empty)
        else:
            vals = np.array(["", "a", "abc", "Z z"])
    elif s in impl.INTS:
        ii = np.iinfo(s)
        cand = [0, 1, 2, 5, 100, 127, 128, 255, 256, 32767, 65535, 2 ** 24, 2 ** 24 + 1, 2 ** 31 - 1, 2 ** 32 - 1, 2 ** 53, 2 ** 53 + 1,
                2 ** 63 - 1, 2 ** 64 - 1, ii.max, ii.max - 1, -1, -2, -128, -129, -32768, -2 ** 31, -2 ** 53 - 1, ii.min, ii.min + 1]
        cand = [v for v in cand if ii.min <= v <= ii.max]
        if d in impl.INTS:
            di = np.iinfo(d)
            cand = [v for v in cand if di.min <= v <= di.max]
        vals = np.array(sorted(set(cand)), dtype=object).astype(s)
    else:
        cand = [0.0, -0.0, 0.5, -0.5, 1.0, 1.5, -1.5, 2.5, -2.5, 0.999, -0.999, 100.75, -100.75, 127.9, -128.9, 255.5, 65535.2,
                2.0 ** 31 - 129, -(2.0 ** 31), 2.0 ** 52 + 0.5, 1e15, -1e15, 3.0e9, 1.8e19, 9.0e18, 2.0 ** 63, 2.0 ** 63 + 2.0 ** 40,
                1.0e19, 1.5e19, 4.0e9, 2.0 ** 32 - 256, 2.0 ** 16 - 0.5]
        if d in impl.INTS:
            di = np.iinfo(d)
            cand = [v for v in cand if di.min <= int(np.trunc(np.array(v, dtype=s))) <= di.max]
        elif d == "utf8":
            cand = [0.0, 1.5, -2.25, 100.0, 1e15]
        elif d in impl.FLOATS:
            cand += [np.inf, -np.inf, np.nan, 1e38 if s == "float32" or d == "float32" else 1e300]
        vals = np.array(cand, dtype=s)
    return vals


def value_job(job):
    from .. import sweep
    src, dst = job
    ndx = impl.ndx
    vals = source_values(src, dst)
    if vals is None or len(vals) == 0:
        return {"skip": True}
    rec = {"src": src, "dst": dst, "n": int(len(vals)), "fail": []}
    masks = [None]
    if impl.is_nullable(src):
        masks = [np.zeros(len(vals), bool), (np.arange(len(vals)) % 3 == 1), np.ones(len(vals), bool)]
    s_core = src[1:] if impl.is_nullable(src) else src
    d_core = dst[1:] if impl.is_nullable(dst) else dst
    with np.errstate(all="ignore"), warnings.catch_warnings():
        warnings.simplefilter("ignore")
        if d_core == "utf8":
            if s_core == "bool":
                ref_data = None       # bool -> text is not pinned down by the property
            elif s_core in impl.FLOATS:
                ref_data = None       # float -> text formatting is not pinned down
            else:
                ref_data = vals.astype(str)
        elif s_core == "utf8":
            ref_data = vals.astype(np.float64).astype(d_core) if d_core in impl.FLOATS else np.array([int(v) for v in vals], dtype=object).astype(d_core)
        else:
            ref_data = vals.astype(d_core)
    for mask in masks:
        x = np.ma.masked_array(vals, mask=mask) if mask is not None else vals
        if src != dst and len(vals) >= 3 and s_core != "utf8":
            # the cast result is a new array: writing into the source (or the result) afterwards must not show in the other
            from .. import progs
            for direction in ("source-written", "result-written"):
                try:
                    a = ndx.asarray(x.copy())
                    b = ndx.astype(a, impl.dt(dst))
                    tgt, other = (a, b) if direction == "source-written" else (b, a)
                    before = other.to_numpy()
                    i = 1 if mask is None or not mask.any() or mask.all() else int(np.argmax(mask))   # a null slot if there is one
                    j = 0 if mask is None or not mask.any() or mask.all() else int(np.argmin(mask))
                    tgt[i] = tgt[j]
                    after = other.to_numpy()
                except Exception:
                    continue
                if before is None or after is None or not progs.same_value(before, after):
                    rec["fail"].append(("eager", f"cast-result-shares-storage-with-source/{direction}",
                                        f"{impl.canon(before)} became {impl.canon(after)}"[:300]))
        res = sweep.run_case(lambda a: ndx.astype(a, impl.dt(dst)), [x], [src])
        for mode, got in res.items():
            if sweep.is_error(got):
                rec["fail"].append((mode, "raises", got[1]))
                continue
            if isinstance(got, impl.Malformed):
                rec["fail"].append((mode, "malformed", str(got)))
                continue
            want_mask = (mask if mask is not None else np.zeros(len(vals), bool)) if impl.is_nullable(dst) else None
            gm = isinstance(got, np.ma.MaskedArray)
            if gm != (want_mask is not None):
                rec["fail"].append((mode, "nullability", f"masked={gm}")); continue
            gd = np.asarray(got.data) if gm else np.asarray(got)
            if gd.shape != vals.shape:
                rec["fail"].append((mode, "shape", str(gd.shape))); continue
            gdt = "utf8" if gd.dtype.kind in "UO" else str(gd.dtype)
            if gdt != d_core:
                rec["fail"].append((mode, "dtype", gdt)); continue
            if gm and not np.array_equal(np.broadcast_to(np.ma.getmaskarray(got), gd.shape), want_mask):
                rec["fail"].append((mode, "mask", f"{np.ma.getmaskarray(got).tolist()} != {want_mask.tolist()}")); continue
            if ref_data is None:
                continue
            keep = ~want_mask if want_mask is not None else np.ones(len(vals), bool)
            a, b = gd[keep], ref_data[keep]
            if b.dtype.kind == "f":
                ok = (a == b) | (np.isnan(a) & np.isnan(b))
            elif b.dtype.kind in "US":
                ok = a.astype(str) == b.astype(str)
            else:
                ok = a == b
            if not np.all(ok):
                i = int(np.argwhere(~ok)[0][0])
                rec["fail"].append((mode, "values", f"source {vals[keep][i]!r} -> {a[i]!r}, numpy {b[i]!r}"))
    return rec


def cast_graph_row(job):
    from .. import graphterm
    ndx = impl.ndx
    s, d = job
    try:
        a = ndx.array(shape=("N",), dtype=impl.dt(s))
        out = ndx.astype(a, impl.dt(d))
        return graphterm.sexpr(ndx.build({"a": a}, {"o": out}))
    except Exception as e:
        return f"!{type(e).__name__}"


def cast_graph_tie(ctx):
    """Tie B for casts inside the integer / boolean fragment: the exported graph of astype(x: s, d) must be one of
    `Ndx.Graph.castTerms s d` (one Cast, or the input itself); Props/C14Graph.lean gives its value for every operand."""
    frag = ["int8", "int16", "int32", "int64", "uint8", "uint16", "uint32", "uint64", "bool"]
    jobs = [(s, d) for s in frag for d in frag]
    got = tables.pmap(cast_graph_row, jobs, chunk=16, strict=True)
    acc = common.model([f"gcast {s} {d}" for s, d in jobs])
    ok = 0
    for (s, d), g, a in zip(jobs, got, acc):
        ctx.case(("cast-graph", s, d), s != d)
        if a == "~" or g not in a.split(" || "):
            ctx.corr_broken(f"cast-graph/{s}->{d}", {"exported_graph": g, "accepted_terms": a, "theorems": "Ndx.Graph.cast_int_int, cast_int_bool, cast_bool_int"})
        else:
            ok += 1
    ctx.extra["cast_graph_tie"] = {"pairs": len(jobs), "matched": ok}


def run(ctx: common.Ctx):
    ctx.extra["rule"] = (
        "astype outcome for all 24x24 ordered dtype pairs (lazy and eager) and can_cast for all 12x12 core pairs, "
        "exhaustive; values: every ordered pair of the 24 dtypes for which the cast is defined x boundary values of the "
        "source type in range of the target x masks {none, partial, full}, eager and traced; distinct = distinct (pair, "
        "mask, mode); non-trivial = source and target differ")
    pairs = list(itertools.product(ALL_DTYPES, repeat=2))
    jobs = [(a, b, m) for a, b in pairs for m in ("lazy", "eager")]
    outs = tables.pmap(outcome_row, jobs, strict=True)
    model = common.model([f"cast {a} {b}" for a, b, _ in jobs])
    rows = []
    for (a, b, mode), o, m in zip(jobs, outs, model):
        ctx.case(("outcome", a, b, mode), a != b)
        want = m[3:] if m.startswith("ok ") else "!CastError"
        code = IDX.get(o, 24 if o == "!CastError" else (25 if o == "!TypeError" else 26))
        if mode == "lazy":
            rows.append((IDX[a], IDX[b], code))
        if o != want:
            kind = "returns-" + o if not o.startswith("!") else "raises-" + o[1:].replace(":", "-")
            ctx.violation(f"astype/{a}->{b}/{kind}", f"astype({a} -> {b}) [{mode}] gives {o}, the cast protocol demands {want}",
                          {"source": a, "target": b, "mode": mode, "observed": o, "expected": want})
    cpairs = list(itertools.product(CORE, repeat=2))
    couts = tables.pmap(cancast_row, cpairs, strict=True)
    cmodel = common.model([f"cancast {a} {b}" for a, b in cpairs])
    crow = []
    for (a, b), o, m in zip(cpairs, couts, cmodel):
        ctx.case(("can_cast", a, b), True)
        crow.append((IDX[a], IDX[b], {"True": 1, "False": 0}.get(o, 2)))
        if o.lower() != m:
            try:
                npw = str(bool(np.can_cast(impl.np_dtype(a), impl.np_dtype(b)))) if "utf8" not in (a, b) else None
            except Exception:
                npw = None
            ctx.violation(f"can_cast/{a}->{b}/{o}", f"can_cast({a}, {b}) = {o}; safe-casting table: {m} (numpy: {npw})",
                          {"source": a, "target": b, "observed": o, "expected": m})
    prow = ", ".join(f"({a}, {b}, {c})" for a, b, c in rows)
    qrow = ", ".join(f"({a}, {b}, {c})" for a, b, c in crow)
    gen.write("CastMatrix", f"""import NdonnxVerif.Model.GenSupport
/-! Generated by harness/props/c14.py from the running implementation; do not edit.
`casts`: (source, target, outcome) with 0..23 = result dtype, 24 = CastError, 25 = other TypeError, 26 = other.
`cancast`: (source, target, 1/0/2) for the core dtypes. -/
namespace Gen.CastMatrix
open Ndx Ndx.GenSupport
def casts : List (Nat × Nat × Nat) := [{prow}]
def cancast : List (Nat × Nat × Nat) := [{qrow}]
def encCast : CastOutcome → Nat | .ok d => d.idx | .castError => 24
theorem casts_complete : casts.length = 576 := by decide +kernel
/-- The implementation's cast matrix is the cast protocol of the model. -/
theorem casts_are_model : casts.all (fun r => r.2.2 == encCast (castOutcome (Dt.ofIdx r.1) (Dt.ofIdx r.2.1))) = true := by
  decide +kernel
/-- Directly on the dumped table: nullable -> core raises a cast error, everything else returns the target dtype. -/
theorem nullable_to_core_raises : casts.all (fun r =>
    !((Dt.ofIdx r.1).nullable && !(Dt.ofIdx r.2.1).nullable) || r.2.2 == 24) = true := by decide +kernel
theorem defined_casts_return_target : casts.all (fun r =>
    ((Dt.ofIdx r.1).nullable && !(Dt.ofIdx r.2.1).nullable) || r.2.2 == r.2.1) = true := by decide +kernel
/-- can_cast is NumPy's safe-casting table. -/
theorem cancast_is_model : cancast.all (fun r =>
    r.2.2 == (if canCastCore (Dt.ofIdx r.1).core (Dt.ofIdx r.2.1).core then 1 else 0)) = true := by decide +kernel
end Gen.CastMatrix
""")
    gen.check_generated(ctx, ["CastMatrix"])
    # values
    vjobs = [(a, b) for a, b in pairs if not (impl.is_nullable(a) and not impl.is_nullable(b))]
    if ctx.tier == "quick":
        keep = [j for j in vjobs if not impl.is_nullable(j[0]) and not impl.is_nullable(j[1])]
        keep += ctx.rng.sample([j for j in vjobs if j not in keep], 90)
        vjobs = keep
    res = tables.pmap(value_job, vjobs, chunk=6)
    n_vals = 0
    for (a, b), r in tables.pairs(ctx, vjobs, res):
        if isinstance(r, tables.Crashed):
            ctx.violation(f"astype/{a}->{b}/interpreter-crash", f"astype({a}->{b}) values: worker died", {"pair": [a, b]})
            continue
        if r.get("skip"):
            continue
        n_vals += r["n"]
        ctx.case(("values", a, b), a != b, {"source": a, "target": b, "values": r["n"]} if len(ctx.samples) < 6 else None)
        for mode, kind, detail in r["fail"]:
            ctx.violation(f"astype/{a}->{b}/{kind}", f"astype({a} -> {b}) {mode}: {kind}: {detail}",
                          {"source": a, "target": b, "mode": mode, "kind": kind, "detail": detail})
    # same dtype: equal, independent array
    for d in ALL_DTYPES:
        x = impl.ndx.asarray(impl.token_array((3,), d))
        y = impl.ndx.astype(x, impl.dt(d))
        before = x.to_numpy().copy()
        try:
            y[0] = y[1]
        except Exception:
            pass
        ctx.case(("same-dtype-independent", d), True)
        if not np.array_equal(np.ma.getdata(x.to_numpy()).astype(str), np.ma.getdata(before).astype(str)):
            ctx.violation(f"astype/{d}->{d}/shares-storage", f"astype({d} -> {d}) result shares storage with its argument", {"dtype": d})
    # a core -> nullable cast yields an all-false mask that belongs to the result alone: a null written into one result
    # must not show up in the mask of a later, unrelated cast (of the same or of another shape)
    ndx = impl.ndx
    for src, dst in [("int32", "nint64"), ("float64", "nfloat32"), ("bool", "nint8"), ("int64", "nutf8"), ("uint8", "nuint8"), ("float32", "nbool")]:
        for how in ("astype", "asarray-dtype", "method"):
            for write in ("setitem-null", "null-field"):
                ident = ("fresh-mask", src, dst, how, write)
                ctx.case(ident, True)
                try:
                    def cast(v):
                        a = ndx.asarray(v)
                        if how == "astype":
                            return ndx.astype(a, impl.dt(dst))
                        if how == "method":
                            return a.astype(impl.dt(dst))
                        return ndx.asarray(a, dtype=impl.dt(dst))
                    first = cast(impl.token_array((3,), src))
                    if write == "setitem-null":
                        first[1] = ndx.asarray(np.ma.masked_array(np.array(0, dtype=impl.np_dtype(dst)), mask=True))
                    else:
                        first.null[1] = True
                    second = cast(impl.token_array((3,), src, salt=1))
                    third = cast(impl.token_array((2, 3), src))
                    m2 = np.ma.getmaskarray(second.to_numpy()).tolist()
                    m3 = np.ma.getmaskarray(third.to_numpy()).tolist()
                except Exception as e:
                    ctx.count("fresh-mask-skipped:" + type(e).__name__)
                    continue
                if any(m2) or any(any(r) for r in m3):
                    ctx.violation(f"astype/{src}->{dst}/mask-shared-between-casts",
                                  f"after writing a null into one {src}->{dst} cast result ({write}), a later cast ({how}) of an unrelated array has mask {m2} / {m3}",
                                  {"source": src, "target": dst, "how": how, "write": write, "mask_same_shape": m2, "mask_other_shape": m3})
    ctx.extra["source_values_cast"] = n_vals
    cast_graph_tie(ctx)
    ctx.extra["exhaustive"] = True
