"""C11 — shape-manipulation functions are pure data movement for every dtype.

Sweep vs NumPy with token data (every element identifies its own position): reshape, permute_dims,
matrix_transpose/.T/.mT, expand_dims, squeeze, flip, roll, concat, stack, broadcast_to,
broadcast_arrays, take, tril, triu over ranks 0..4, extents incl. 0/1, all parameter forms, for core,
string, nullable and a user struct dtype (every field compared), eager and traced.  roll/flip are
additionally compared with the Lean model (`Ndx.rollAxisModel`, `Ndx.flipAxisModel`), about which
Props/C11.lean proves equality with NumPy's index map for every shape/axis/shift."""
from __future__ import annotations

import itertools
import random

import numpy as np

from .. import common, impl, tables

FUNCS = ["reshape", "permute_dims", "matrix_transpose", "T", "mT", "expand_dims", "squeeze", "flip", "roll",
         "concat", "stack", "broadcast_to", "broadcast_arrays", "take", "tril", "triu"]
DTYPES = ["int64", "utf8", "nint32", "float32", "nutf8", "bool", "uint8", "nfloat64", "nbool", "int16", "uint64", "struct"]


def ext(rng):
    """Extent of one axis: 0 and 1 are boundary cases, not the bulk."""
    return rng.choice([0, 1, 1, 2, 2, 2, 3, 3, 3, 4, 5])


def gen_case(rng, fn):
    """(shape(s), params) admissible for NumPy."""
    r = rng.choice([0, 1, 2, 2, 3, 3, 4])
    shape = tuple(ext(rng) for _ in range(r))
    if fn == "reshape":
        size = int(np.prod(shape)) if shape else 1
        opts = [(-1,), (size,), (1, -1), (-1, 1)]
        if r >= 2:
            opts += [(shape[0], -1), (-1, shape[-1])] if size or True else []
        for d in (2, 3):
            if size % d == 0 and size:
                opts.append((d, size // d))
                opts.append((-1, d))
        tgt = rng.choice(opts)
        if size == 0 and -1 in tgt and any(t == 0 for t in tgt if t != -1):
            tgt = (size,)
        return [shape], {"shape": tgt}
    if fn == "permute_dims":
        axes = list(range(r)); rng.shuffle(axes)
        return [shape], {"axes": tuple(axes)}
    if fn in ("matrix_transpose", "mT"):
        if r < 2:
            shape = shape + (2, 3)[: 2 - r]
        return [shape], {}
    if fn == "T":
        return [tuple(rng.choice([0, 1, 2, 3]) for _ in range(2))], {}
    if fn == "expand_dims":
        return [shape], {"axis": rng.randrange(-r - 1, r + 1)}
    if fn == "squeeze":
        shape = tuple(1 if rng.random() < 0.5 else n for n in shape) or (1,)
        ones = [i for i, n in enumerate(shape) if n == 1]
        if not ones:
            shape = shape + (1,); ones = [len(shape) - 1]
        k = rng.randrange(1, len(ones) + 1)
        sel = rng.sample(ones, k)
        sel = [a - len(shape) if rng.random() < 0.4 else a for a in sel]
        return [shape], {"axis": sel[0] if (len(sel) == 1 and rng.random() < 0.6) else tuple(sel)}
    if fn == "flip":
        c = rng.random()
        axis = None if c < 0.25 or r == 0 else (rng.randrange(-r, r) if c < 0.65 else tuple(rng.sample(range(-r, 0), rng.randrange(0, r + 1))))
        return [shape], {"axis": axis}
    if fn == "roll":
        c = rng.random()
        if c < 0.25 or r == 0:
            return [shape], {"shift": rng.randrange(-9, 10), "axis": None}
        if c < 0.6:
            return [shape], {"shift": rng.randrange(-9, 10), "axis": rng.randrange(-r, r)}
        k = rng.randrange(1, r + 2)
        axes = [rng.randrange(-r, r) for _ in range(k)]        # repeated / aliased axes accumulate in NumPy
        return [shape], {"shift": tuple(rng.randrange(-7, 8) for _ in axes), "axis": tuple(axes)}
    if fn == "concat":
        if r == 0:
            shape = (2,); r = 1
        ax = rng.randrange(-r, r)
        n = rng.randrange(1, 4)
        shapes = []
        for _ in range(n):
            s = list(shape); s[ax] = rng.choice([0, 1, 2, 3]); shapes.append(tuple(s))
        return shapes, {"axis": ax if rng.random() < 0.8 else None}
    if fn == "stack":
        n = rng.randrange(1, 4)
        return [shape] * n, {"axis": rng.randrange(-r - 1, r + 1)}
    if fn == "broadcast_to":
        tgt = tuple(rng.choice([0, 1, 2, 3]) for _ in range(rng.randrange(r, 5)))
        src = tuple((1 if rng.random() < 0.5 else t) for t in tgt[len(tgt) - r:]) if r else ()
        return [src], {"shape": tgt}
    if fn == "broadcast_arrays":
        tgt = tuple(rng.choice([0, 1, 2, 3]) for _ in range(rng.randrange(0, 4)))
        shapes = []
        for _ in range(rng.randrange(1, 4)):
            k = rng.randrange(0, len(tgt) + 1)
            shapes.append(tuple((1 if rng.random() < 0.4 else t) for t in tgt[len(tgt) - k:]))
        return shapes, {}
    if fn == "take":
        if r == 0 or 0 in shape:
            shape = tuple(n or 2 for n in shape) or (3,); r = len(shape)
        ax = rng.randrange(-r, r)
        n = shape[ax]
        ind = [rng.randrange(-n, n) for _ in range(rng.randrange(0, 5))]
        idt = rng.choice(["int64", "int64", "int32", "int8", "int16", "uint8", "uint16", "uint32", "uint64"])
        if idt.startswith("u"):
            ind = [v % n for v in ind]
        return [shape], {"axis": ax, "indices": ind, "idt": idt}
    if fn in ("tril", "triu"):
        if r < 2:
            shape = shape + (2, 3)[: 2 - r]
        return [shape], {"k": rng.randrange(-3, 4)}
    raise KeyError(fn)


def nd_call(fn, arrs, p, ndx):
    x = arrs[0]
    if fn == "reshape":
        return ndx.reshape(x, p["shape"])
    if fn == "permute_dims":
        return ndx.permute_dims(x, p["axes"])
    if fn == "matrix_transpose":
        return ndx.matrix_transpose(x)
    if fn == "T":
        return x.T
    if fn == "mT":
        return x.mT
    if fn == "expand_dims":
        return ndx.expand_dims(x, axis=p["axis"])
    if fn == "squeeze":
        return ndx.squeeze(x, axis=p["axis"])
    if fn == "flip":
        return ndx.flip(x, axis=p["axis"])
    if fn == "roll":
        return ndx.roll(x, p["shift"], axis=p["axis"])
    if fn == "concat":
        return ndx.concat(list(arrs), axis=p["axis"])
    if fn == "stack":
        return ndx.stack(list(arrs), axis=p["axis"])
    if fn == "broadcast_to":
        return ndx.broadcast_to(x, p["shape"])
    if fn == "broadcast_arrays":
        return ndx.broadcast_arrays(*arrs)
    if fn == "take":
        return ndx.take(x, ndx.asarray(np.array(p["indices"], dtype=np.dtype(p.get("idt", "int64")))), axis=p["axis"])
    if fn in ("tril", "triu"):
        return getattr(ndx, fn)(x, k=p["k"])


def np_call(fn, vals, p):
    x = vals[0]
    if fn == "reshape":
        return np.reshape(x, p["shape"])
    if fn == "permute_dims":
        return np.transpose(x, p["axes"])
    if fn in ("matrix_transpose", "mT"):
        return np.swapaxes(x, -1, -2)
    if fn == "T":
        return x.T
    if fn == "expand_dims":
        return np.expand_dims(x, p["axis"])
    if fn == "squeeze":
        return np.squeeze(x, axis=p["axis"])
    if fn == "flip":
        return np.flip(x, axis=p["axis"])
    if fn == "roll":
        return np.roll(x, p["shift"], axis=p["axis"])
    if fn == "concat":
        return np.concatenate(vals, axis=p["axis"])
    if fn == "stack":
        return np.stack(vals, axis=p["axis"])
    if fn == "broadcast_to":
        return np.broadcast_to(x, p["shape"])
    if fn == "broadcast_arrays":
        return list(np.broadcast_arrays(*vals))
    if fn == "take":
        return np.take(x, p["indices"], axis=p["axis"])
    if fn in ("tril", "triu"):
        return getattr(np, fn)(x, k=p["k"])


def fields_of(v, dtype):
    """Decompose a value into plain per-field numpy arrays (positions, masks) for exact comparison."""
    if dtype == "struct":
        return {"lo": np.asarray(v["lo"]), "hi": np.asarray(v["hi"]), "hi_null": np.asarray(v["hi_null"])}
    if isinstance(v, np.ma.MaskedArray):
        return {"values": np.asarray(v.data).astype(str) if v.dtype.kind in "UO" else np.asarray(v.data),
                "null": np.broadcast_to(np.ma.getmaskarray(v), v.shape)}
    v = np.asarray(v)
    return {"data": v.astype(str) if v.dtype.kind in "UO" else v}


def worker(job):
    from .. import sweep, userdtype
    ndx = impl.ndx
    fn, dtype, seed = job
    if fn in ("tril", "triu") and (dtype == "struct" or (dtype[1:] if impl.is_nullable(dtype) else dtype) in ("bool", "utf8")):
        # the standard defines tril/triu for numeric arrays; zero-filling strings/structs is not specified
        return {"fn": fn, "dtype": dtype, "shapes": [], "params": {}, "fail": [], "skip": "tril/triu outside numeric dtypes"}
    rng = random.Random(f"c11/{fn}/{dtype}/{seed}")
    shapes, p = gen_case(rng, fn)
    if dtype == "struct":
        vals = [userdtype.pair_value(s, salt=k) for k, s in enumerate(shapes)]
    else:
        vals = [impl.token_array(s, dtype, salt=k) for k, s in enumerate(shapes)]
        if fn in ("concat", "stack", "broadcast_arrays") and not impl.is_nullable(dtype) and dtype not in ("utf8", "bool"):
            vals = [v + np.asarray(100 * k).astype(v.dtype) if v.dtype.kind in "iuf" and np.dtype(v.dtype).itemsize > 1 else v for k, v in enumerate(vals)]
    rec = {"fn": fn, "dtype": dtype, "shapes": [list(s) for s in shapes], "params": {k: (list(v) if isinstance(v, tuple) else v) for k, v in p.items()}, "fail": []}
    # reference: apply NumPy to every field separately (structured / masked arrays move field-wise)
    try:
        if dtype == "struct" or impl.is_nullable(dtype):
            fl = [fields_of(v, dtype) for v in vals]
            ref = {f: np_call(fn, [x[f] for x in fl], p) for f in fl[0]}
            if fn in ("tril", "triu") and impl.is_nullable(dtype):
                ref = {"data": ref["values"]}     # documented: tril/triu act on the plain values of nullable input
        else:
            ref = {"data": np_call(fn, [fields_of(v, dtype)["data"] for v in vals], p)}
    except Exception as e:
        rec["skip"] = f"numpy: {type(e).__name__}: {e}"
        return rec
    out_dtype = dtype
    if fn in ("tril", "triu") and impl.is_nullable(dtype):
        out_dtype = dtype[1:]
    # pure data movement never alters its operands: shape, dtype and value of every argument after the call
    if dtype != "struct":
        from .. import progs
        try:
            args = [ndx.asarray(v.copy()) for v in vals]
            nd_call(fn, args, p, ndx)
            for k, (a, v) in enumerate(zip(args, vals)):
                after = a.to_numpy()
                if after is None or tuple(after.shape) != tuple(v.shape) or not progs.same_value(after, ndx.asarray(v).to_numpy()):
                    rec["fail"].append(("eager", "argument-changed", f"operand {k}: shape {list(v.shape)} -> {None if after is None else list(after.shape)}"))
                    break
        except Exception:
            pass        # a raising call is reported by the comparison below
    for mode in ("eager", "traced"):
        try:
            if dtype == "struct":
                if mode == "eager":
                    arrs = [ndx.asarray(v, dtype=userdtype.PAIR) for v in vals]
                    res = nd_call(fn, arrs, p, ndx)
                    got = res.to_numpy() if not isinstance(res, (list, tuple)) else [r.to_numpy() for r in res]
                    gotf = fields_of(got, "struct") if not isinstance(got, list) else [fields_of(g, "struct") for g in got]
                else:
                    arrs = [ndx.array(shape=tuple(f"D{k}_{i}" for i in range(len(s))), dtype=userdtype.PAIR) for k, s in enumerate(shapes)]
                    res = nd_call(fn, arrs, p, ndx)
                    flat = res if isinstance(res, (list, tuple)) else [res]
                    model = ndx.build({f"i{k}": a for k, a in enumerate(arrs)}, {f"o{j}": r for j, r in enumerate(flat)})
                    sess = impl.session(model)
                    feeds = {}
                    for k, v in enumerate(vals):
                        feeds[f"i{k}_lo"] = np.array(v["lo"]); feeds[f"i{k}_hi_values"] = np.array(v["hi"]); feeds[f"i{k}_hi_null"] = np.array(v["hi_null"])
                    raw = dict(zip([o.name for o in sess.get_outputs()], sess.run(None, feeds)))
                    gl = [{"lo": raw[f"o{j}_lo"], "hi": raw[f"o{j}_hi_values"], "hi_null": raw[f"o{j}_hi_null"]} for j in range(len(flat))]
                    gotf = gl if isinstance(res, (list, tuple)) else gl[0]
            else:
                r = sweep.run_case(lambda *a: nd_call(fn, a, p, ndx), vals, [dtype] * len(vals), modes=(mode,))[mode]
                if sweep.is_error(r):
                    raise RuntimeError(r[1])
                if isinstance(r, list):
                    gotf = [fields_of(g, out_dtype) if not isinstance(g, impl.Malformed) else {"malformed": np.zeros(0)} for g in r]
                else:
                    gotf = fields_of(r, out_dtype) if not isinstance(r, impl.Malformed) else {"malformed": np.zeros(0)}
        except Exception as e:
            rec["fail"].append((mode, "raises", f"{type(e).__name__}: {str(e)[:200]}"))
            continue
        pairs = []
        if isinstance(gotf, list):
            for j, g in enumerate(gotf):
                pairs.append((g, {f: ref[f][j] for f in ref}))
        else:
            pairs.append((gotf, ref))
        for g, rf in pairs:
            if set(g) != set(rf):
                rec["fail"].append((mode, "fields", f"{sorted(g)} != {sorted(rf)}"))
                break
            bad = None
            for f in rf:
                a, b = np.asarray(g[f]), np.asarray(rf[f])
                if a.shape != b.shape:
                    bad = ("shape", f"field {f}: {list(a.shape)} != numpy {list(b.shape)}")
                elif a.dtype.kind != b.dtype.kind and not (a.dtype.kind in "US" and b.dtype.kind in "US"):
                    bad = ("dtype", f"field {f}: {a.dtype} != {b.dtype}")
                elif not np.array_equal(a, b):
                    bad = ("arrangement", f"field {f}: got {a.tolist()} numpy {b.tolist()}"[:300])
                if bad:
                    break
            if bad:
                rec["fail"].append((mode, bad[0], bad[1]))
                break
    return rec


def run(ctx: common.Ctx):
    ctx.extra["rule"] = (
        "16 layout functions x 12 dtypes (core, string, nullable, user struct with a nested nullable field) x random "
        "admissible parameters (negative axes, tuples, repeated roll axes, shifts of any sign/magnitude, -1 in reshape, "
        "extents 0/1, ranks 0-4); token data so that element identity is observable; eager and traced (symbolic dims) "
        "compared field by field with NumPy; distinct = distinct (function, dtype, shapes, params); non-trivial = rank >= 1")
    quick = ctx.tier == "quick"
    heavy = {"roll": 3, "take": 2, "squeeze": 2, "reshape": 2, "concat": 2, "flip": 2}      # larger parameter spaces
    jobs = [(fn, d, ctx.seed * 1000 + k) for fn in FUNCS for d in DTYPES
            for k in range((3 if quick else 40) * heavy.get(fn, 1))]
    res = tables.pmap(worker, jobs, chunk=8)
    for job, r in tables.pairs(ctx, jobs, res):
        if isinstance(r, tables.Crashed):
            ctx.violation(f"{job[0]}/interpreter-crash", f"{job}: worker died", {"job": repr(job)})
            continue
        if "skip" in r:
            ctx.count("skipped-inadmissible")
            continue
        nontriv = any(len(s) >= 1 for s in r["shapes"])
        ctx.case((r["fn"], r["dtype"], str(r["shapes"]), str(r["params"])), nontriv,
                 {k: r[k] for k in ("fn", "dtype", "shapes", "params")} if len(ctx.samples) < 8 else None)
        ctx.count("fn:" + r["fn"]); ctx.count("dtype:" + r["dtype"])
        dcls = "struct" if r["dtype"] == "struct" else ("nullable" if impl.is_nullable(r["dtype"]) else ("string" if r["dtype"] == "utf8" else "core"))
        if impl.is_nullable(r["dtype"]) and r["dtype"].endswith("utf8"):
            dcls = "nullable-string"
        for mode, kind, detail in r["fail"]:
            zero = "zero-extent" if any(0 in s for s in r["shapes"]) else "nonempty"
            ctx.violation(f"{r['fn']}/{dcls}/{zero}/{kind}",
                          f"{r['fn']}({r['dtype']}{r['shapes']}, {r['params']}) {mode}: {kind}: {detail}",
                          {**{k: r[k] for k in ("fn", "dtype", "shapes", "params")}, "mode": mode, "kind": kind, "detail": detail})
    # Lean model of roll / flip vs NumPy on token positions
    lines, expect = [], []
    rng = ctx.rng
    for _ in range(150 if quick else 1500):
        r = rng.choice([1, 2, 3])
        shape = tuple(rng.choice([0, 1, 2, 3, 4]) for _ in range(r))
        ax = rng.randrange(r)
        tok = np.arange(int(np.prod(shape))).reshape(shape)
        if rng.random() < 0.6:
            sh = rng.randrange(-11, 12)
            lines.append(f"roll {','.join(map(str, shape))} {ax} {sh}")
            expect.append(np.roll(tok, sh, axis=ax))
        else:
            lines.append(f"flip {','.join(map(str, shape))} {ax}")
            expect.append(np.flip(tok, axis=ax))
    for line, ans, ex in zip(lines, common.model(lines), expect):
        ctx.case(("lean", line), True)
        want = ",".join(map(str, ex.shape)) + " " + (",".join(map(str, ex.reshape(-1).tolist())) or "-")
        m, sp = ans.split(" spec ")
        if m.replace("model ", "") != want or sp != want:
            ctx.corr_broken("lean-layout-model-vs-numpy", {"line": line, "answer": ans, "numpy": want})

    # graph-level tie (B) and operator-reading tie (D): exported graphs vs the terms of Model/TGraphFns.lean
    # (Props/C11Graph.lean: roll_graph_correct, flip_graph_correct, expandDims/squeeze/concat_graph_correct, ...)
    from .. import tgraph
    tgraph.run_layout(ctx, 400 if quick else 4000)
    # tril / triu and broadcast_arrays at graph level (Model/TGraphScatter; Props/C11Trilu.lean, C11Broadcast.lean)
    from .. import scattertie
    scattertie.run(ctx, 80 if ctx.tier == "quick" else 800, label="layout2", kinds=("trilu", "broadcast_arrays"))
