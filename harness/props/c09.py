"""C09 — writes update only their target: assignment semantics and no hidden aliasing.

(1) x[idx] = v for every index form of C08 (basic tuples, boolean masks, integer arrays) with scalar /
broadcast / other-dtype updates vs NumPy assignment, eager and traced; augmented operators vs their
out-of-place form.  (2) Cell-sharing table: for every public function, does the result (or any argument
afterwards) share a core array with an argument?  (3) Random histories over a pool of arrays (b = f(a),
copy, setitem, op=, astype/reshape with copy flags, reads) against a NumPy pool with independent
copies.  Lean: Props/C09.lean (frame theorems over histories of the propagation state machine)."""
from __future__ import annotations

import random

import numpy as np

from .. import common, impl, tables


def cells(arr):
    """ids of the _CoreArray objects an Array is made of."""
    from ndonnx._corearray import _CoreArray
    out = set()
    def rec(a):
        for f in a._fields.values():
            if isinstance(f, _CoreArray):
                out.add(id(f))
            else:
                rec(f)
    rec(arr)
    return out


def setitem_worker(job):
    from .. import progs, sweep
    ndx = impl.ndx
    dtype, seed = job
    rng = np.random.default_rng(seed)
    prng = random.Random(seed)
    r = prng.choice([0, 1, 1, 2, 2, 3])
    shape = tuple(prng.choice([0, 1, 2, 3, 4]) for _ in range(r))
    x = impl.token_array(shape, dtype, salt=seed)
    if dtype.endswith("utf8"):
        # wide enough for the update strings (NumPy assignment truncates to the array's itemsize)
        x = np.ma.masked_array(np.ma.getdata(x).astype("<U8"), mask=np.ma.getmaskarray(x)) if impl.is_nullable(dtype) else x.astype("<U8")
    rec = {"dtype": dtype, "shape": list(shape), "fail": []}
    form = prng.choice(["basic", "basic", "mask", "intarray", "aug"])
    base = dtype[1:] if impl.is_nullable(dtype) else dtype
    rec["form"] = form

    def upd_value(tshape):
        kind = prng.choice(["scalar", "scalar", "array0", "array", "other-dtype"])
        if base == "utf8":
            v = "UPD" if kind in ("scalar", "other-dtype") else np.full(tshape if kind == "array" else (), "U", dtype="<U3")
        elif base == "bool":
            v = True if kind in ("scalar", "other-dtype") else np.full(tshape if kind == "array" else (), True)
        else:
            if kind == "scalar":
                v = 7
            elif kind == "other-dtype":
                v = np.asarray(5, dtype="int16" if base != "int16" else "int8")
            else:
                v = np.full(tshape if kind == "array" else (), 9, dtype=base)
        return kind, v

    if form == "basic":
        spec = progs._basic_index(prng, shape)
        spec = [e for e in spec if e is not None]
        idx = progs._idx(spec)
        tshape = np.empty(shape)[idx].shape
        kind, v = upd_value(tshape)
        rec["params"] = {"index": str(idx), "update": kind}
        def nd(a, *rest):
            t = a.copy(); t[idx] = (rest[0] if rest else v); return t
        def ref(xx):
            t = xx.copy(); t[idx] = v; return t
        inputs, dts = [x], [dtype]
        if isinstance(v, np.ndarray) and prng.random() < 0.5:
            inputs, dts = [x, v], [dtype, "utf8" if v.dtype.kind == "U" else str(v.dtype)]
            def ref(xx):  # noqa: F811
                t = xx.copy(); t[idx] = v; return t
    elif form == "mask":
        if r == 0:
            rec["skip"] = True; return rec
        m = rng.integers(0, 2, size=int(np.prod(shape))).astype(bool).reshape(shape)
        kind, v = upd_value(())
        if isinstance(v, np.ndarray) and v.ndim:
            v = v.reshape(-1)[:1].reshape(())
        rec["params"] = {"mask": m.tolist(), "update": kind}
        def nd(a, mm):
            t = a.copy(); t[mm] = v; return t
        def ref(xx):
            t = xx.copy(); t[m] = v; return t
        inputs, dts = [x, m], [dtype, "bool"]
    elif form == "intarray":
        if r == 0 or shape[0] == 0:
            rec["skip"] = True; return rec
        n = shape[0]
        ind = np.array(sorted(set(prng.randrange(-n, n) % n for _ in range(prng.randrange(1, 3)))), dtype=np.int64)
        if prng.random() < 0.5:
            ind = ind - n
        idt = prng.choice(["int64", "int64", "int32", "int8", "int16"] + ([] if (ind < 0).any() else ["uint8", "uint16", "uint32", "uint64"]))
        ind = ind.astype(idt)
        kind, v = upd_value(())
        if isinstance(v, np.ndarray) and v.ndim:
            v = v.reshape(-1)[:1].reshape(())
        rec["params"] = {"indices": ind.tolist(), "index_dtype": idt, "update": kind}
        def nd(a, ii):
            t = a.copy(); t[ii] = v; return t
        def ref(xx):
            t = xx.copy(); t[ind] = v; return t
        inputs, dts = [x, ind], [dtype, idt]
    else:
        if base in ("utf8", "bool"):
            rec["skip"] = True; return rec
        op = prng.choice(["+=", "-=", "*="])
        y = prng.choice([2, np.full(shape, 3, dtype=base)])
        rec["params"] = {"op": op, "operand": "scalar" if np.ndim(y) == 0 and not isinstance(y, np.ndarray) else "array"}
        def nd(a, *rest):
            t = a.copy(); o = rest[0] if rest else y
            if op == "+=": t += o
            elif op == "-=": t -= o
            else: t *= o
            return t
        def ref(xx):
            d = xx.copy()
            if op == "+=": d = d + y
            elif op == "-=": d = d - y
            else: d = d * y
            if isinstance(xx, np.ma.MaskedArray):
                # (0-d masked arithmetic hands back a plain scalar in NumPy: rebuild the masked result)
                return np.ma.masked_array(np.asarray(np.ma.getdata(d)).astype(np.ma.getdata(xx).dtype), mask=np.ma.getmaskarray(xx))
            return np.asarray(d).astype(xx.dtype)
        inputs, dts = [x], [dtype]
        if isinstance(y, np.ndarray):
            inputs, dts = [x, y], [dtype, base]
    if base == "utf8" and len(shape) >= 2:
        rec["skip"] = True; return rec        # string Gather finding (C08) affects the index grid
    try:
        want = ref(x)
    except Exception as e:
        rec["skip"] = True; return rec
    # the right-hand side of an assignment / augmented operator is an argument too: it must not change
    if len(inputs) == 2 and form in ("basic", "aug"):
        try:
            xa, va = ndx.asarray(inputs[0]), ndx.asarray(inputs[1])
            vdt, vval = va.dtype, va.to_numpy().copy()
            nd(xa, va)
            if va.dtype != vdt or va.to_numpy() is None or not progs.same_value(va.to_numpy(), vval):
                rec["fail"].append(("eager", "modifies-right-hand-side", f"update array was {vdt} {impl.canon(vval)}, now {va.dtype} {impl.canon(va.to_numpy()) if va.to_numpy() is not None else None}"[:300]))
        except Exception:
            pass
    res = sweep.run_case(nd, inputs, dts)
    for mode, got in res.items():
        if sweep.is_error(got):
            rec["fail"].append((mode, "raises", got[1])); continue
        if not progs.same_value(got, want):
            rec["fail"].append((mode, progs.diff_kind(got, want), f"got {impl.canon(got)} want {impl.canon(want)}"[:300]))
    return rec


PURE_CALLS = {
    "abs": lambda n, a: n.abs(a), "negative": lambda n, a: n.negative(a), "positive": lambda n, a: n.positive(a),
    "ceil": lambda n, a: n.ceil(a), "floor": lambda n, a: n.floor(a), "round": lambda n, a: n.round(a), "trunc": lambda n, a: n.trunc(a),
    "sign": lambda n, a: n.sign(a), "square": lambda n, a: n.square(a), "add": lambda n, a: n.add(a, a), "multiply": lambda n, a: n.multiply(a, 1),
    "where": lambda n, a: n.where(True, a, a), "where-equal": lambda n, a: n.where(n.asarray([True]), a, a),
    "reshape": lambda n, a: n.reshape(a, a.shape), "reshape-flat": lambda n, a: n.reshape(a, (-1,)), "squeeze-none": lambda n, a: n.squeeze(a, axis=()),
    "expand_dims": lambda n, a: n.expand_dims(a, 0), "flip": lambda n, a: n.flip(a), "flip-none": lambda n, a: n.flip(a, axis=()), "roll": lambda n, a: n.roll(a, 0),
    "permute_dims": lambda n, a: n.permute_dims(a, tuple(range(a.ndim))), "broadcast_to": lambda n, a: n.broadcast_to(a, a.shape),
    "broadcast_arrays": lambda n, a: n.broadcast_arrays(a, a)[0], "concat": lambda n, a: n.concat([a], axis=0), "stack": lambda n, a: n.stack([a])[0, ...],
    "take": lambda n, a: n.take(a, n.asarray(np.arange(a.shape[0], dtype=np.int64)), axis=0), "getitem-full": lambda n, a: a[...],
    "getitem-slice": lambda n, a: a[:], "astype-same": lambda n, a: n.astype(a, a.dtype), "asarray-copy": lambda n, a: n.asarray(a, copy=True),
    "copy": lambda n, a: a.copy(), "clip": lambda n, a: n.clip(a), "sort": lambda n, a: n.sort(a), "cumulative_sum": lambda n, a: n.cumulative_sum(a),
    "max": lambda n, a: n.max(a, axis=()), "sum": lambda n, a: n.sum(a, axis=()), "zeros_like": lambda n, a: n.zeros_like(a), "full_like": lambda n, a: n.full_like(a, 1),
    "logical_and": lambda n, a: n.logical_and(a, True), "logical_or": lambda n, a: n.logical_or(a, False), "logical_not2": lambda n, a: n.logical_not(n.logical_not(a)),
    "fill_null": lambda n, a: n.additional.fill_null(a, 0), "matrix_transpose2": lambda n, a: n.matrix_transpose(n.matrix_transpose(a)),
    "tril": lambda n, a: n.tril(a, k=10), "unique_values": lambda n, a: n.unique_values(a), "isin": lambda n, a: n.additional.isin(a, [1]),
    # conversions to ANOTHER dtype with the copy argument left at its default: the argument keeps dtype and value
    "asarray-other-dtype": lambda n, a: n.asarray(a, dtype=_other_dtype(n, a)), "astype-other-dtype": lambda n, a: n.astype(a, _other_dtype(n, a)),
    "method-astype-other-dtype": lambda n, a: a.astype(_other_dtype(n, a)), "asarray-same-dtype": lambda n, a: n.asarray(a, dtype=a.dtype),
    "zeros_like-other": lambda n, a: n.zeros_like(a, dtype=_other_dtype(n, a)), "full_like-other": lambda n, a: n.full_like(a, 1, dtype=_other_dtype(n, a)),
}


def _other_dtype(n, a):
    """A dtype the array can be cast to that differs from its own (nullable stays nullable)."""
    name = impl.dtname(a.dtype)
    nul = impl.is_nullable(name)
    base = name[1:] if nul else name
    other = {"int64": "float64", "float32": "int32", "bool": "int8", "utf8": "utf8", "int8": "int64"}.get(base, "float64")
    if other == base:
        raise TypeError("no other dtype")
    return impl.dt(("n" if nul else "") + other)
NO_COPY = {"asarray-nocopy": lambda n, a: n.asarray(a), "astype-nocopy": lambda n, a: n.astype(a, a.dtype, copy=False),
           "reshape-nocopy": lambda n, a: n.reshape(a, a.shape, copy=False), "values": lambda n, a: a.values, "null": lambda n, a: a.null}


def sharing_row(job):
    """Does f(a) share cells with a / change a?  Then: does writing into the result change a?"""
    from .. import progs
    ndx = impl.ndx
    fn, dtype, mode = job
    shape = (2, 2)
    val = impl.token_array(shape, dtype)
    if mode == "lazy":
        a = ndx.array(shape=shape, dtype=impl.dt(dtype))
    else:
        a = ndx.asarray(val)
    before_cells = cells(a)
    before_val = a.to_numpy()
    before_dtype = a.dtype
    f = PURE_CALLS.get(fn) or NO_COPY[fn]
    try:
        b = f(ndx, a)
    except Exception as e:
        return {"skip": f"{type(e).__name__}"}
    out = {"shared": len(cells(b) & before_cells) if isinstance(b, ndx.Array) else 0, "same_object": b is a,
           "arg_cells_changed": cells(a) != before_cells, "arg_dtype_changed": a.dtype != before_dtype}
    if mode == "eager":
        after = a.to_numpy()
        out["arg_changed"] = not progs.same_value(after, before_val) if after is not None else True
        # write into the result: the argument must not change
        try:
            base = dtype[1:] if impl.is_nullable(dtype) else dtype
            upd = {"bool": True, "utf8": "W"}.get(base, 99)
            if isinstance(b, ndx.Array) and b.ndim >= 1 and b.shape[0] and b.dtype == a.dtype:
                snapshot = a.to_numpy().copy()
                b[0, ...] = upd
                out["write_through"] = not progs.same_value(a.to_numpy(), snapshot)
        except Exception as e:
            out["write_error"] = type(e).__name__
    return out


def history_worker(job):
    """Random history over a pool of arrays vs a NumPy pool with independent copies."""
    from .. import progs
    ndx = impl.ndx
    seed, = job
    rng = random.Random(f"c09h/{seed}")
    dtype = rng.choice(["int64", "float64", "int32", "nint64", "bool", "nfloat32", "utf8"])
    base = dtype[1:] if impl.is_nullable(dtype) else dtype
    shape = (rng.choice([1, 2, 3]),) if rng.random() < 0.6 else (2, rng.choice([1, 2]))
    pool_nd, pool_np, names = [], [], []
    v0 = impl.token_array(shape, dtype, salt=seed)
    pool_nd.append(ndx.asarray(v0)); pool_np.append(v0.copy()); names.append("a0 = asarray(v)")
    steps = []
    rec = {"dtype": dtype, "shape": list(shape), "steps": steps, "fail": []}
    upd = {"bool": True, "utf8": "W"}.get(base, 5)
    for k in range(rng.randint(4, 10)):
        i = rng.randrange(len(pool_nd))
        c = rng.random()
        try:
            if c < 0.35:
                fn = rng.choice(list(PURE_CALLS))
                b = PURE_CALLS[fn](ndx, pool_nd[i])
                if not isinstance(b, ndx.Array) or b.to_numpy() is None:
                    continue
                pool_nd.append(b); pool_np.append(b.to_numpy().copy()); steps.append(f"p{len(pool_nd) - 1} = {fn}(p{i})")
            elif c < 0.45:
                pool_nd.append(pool_nd[i].copy()); pool_np.append(pool_np[i].copy()); steps.append(f"p{len(pool_nd) - 1} = p{i}.copy()")
            elif c < 0.75:
                if pool_nd[i].ndim == 0 or pool_nd[i].shape[0] == 0:
                    continue
                j = rng.randrange(pool_nd[i].shape[0])
                if type(upd) is int and pool_np[i].dtype.kind not in "iuf":
                    continue
                if isinstance(upd, bool) and np.ma.getdata(pool_np[i]).dtype.kind != "b":
                    continue
                if isinstance(upd, str) and np.ma.getdata(pool_np[i]).dtype.kind != "U":
                    continue
                pool_nd[i][j, ...] = upd
                pool_np[i] = pool_np[i].copy(); pool_np[i][j, ...] = upd
                steps.append(f"p{i}[{j}, ...] = {upd!r}")
            elif c < 0.9:
                if np.ma.getdata(pool_np[i]).dtype.kind not in "iuf":
                    continue
                op = rng.choice(["+=", "*="])
                if op == "+=":
                    pool_nd[i] += 1; pool_np[i] = pool_np[i] + np.asarray(1).astype(np.ma.getdata(pool_np[i]).dtype)
                else:
                    pool_nd[i] *= 2; pool_np[i] = pool_np[i] * np.asarray(2).astype(np.ma.getdata(pool_np[i]).dtype)
                steps.append(f"p{i} {op} …")
            else:
                # explicit no-copy request: the alias is expected and modelled
                b = ndx.asarray(pool_nd[i])
                if b is pool_nd[i]:
                    steps.append(f"asarray(p{i}) is p{i}")
        except Exception as e:
            steps.append(f"(step raised {type(e).__name__})")
            continue
        # read everything
        for q, (a, ref) in enumerate(zip(pool_nd, pool_np)):
            got = a.to_numpy()
            if got is None or not progs.same_value(got, ref):
                rec["fail"].append((q, f"after {steps[-1]}: p{q} reads {impl.canon(got) if got is not None else None}, NumPy pool has {impl.canon(ref)}"[:400]))
                return rec
    return rec


def run(ctx: common.Ctx):
    ctx.extra["rule"] = (
        "(1) assignments: 14 dtypes x random shapes x {basic index tuples of C08, boolean masks, integer arrays, "
        "augmented operators} x {scalar, 0-d array, broadcast array, other-dtype} updates, eager and traced, vs NumPy; "
        "(2) sharing table: ~50 public call forms x 8 dtypes x {eager, lazy}: shared core arrays, argument changed, "
        "write-through; (3) random histories (4-10 steps) over a pool vs a NumPy pool of independent copies; distinct = "
        "distinct cases/rows/histories; non-trivial = an in-place step is present")
    quick = ctx.tier == "quick"
    dts = ["int64", "float64", "int8", "uint16", "bool", "utf8", "nint64", "nfloat32", "nbool", "nutf8", "float32", "uint64", "int32", "nuint8"]
    import zlib
    jobs = [(d, zlib.crc32(f"{d}/{ctx.seed}/{k}".encode())) for d in dts for k in range(14 if quick else 200)]
    for job, r in tables.pairs(ctx, jobs, tables.pmap(setitem_worker, jobs, chunk=8)):
        if isinstance(r, tables.Crashed):
            ctx.violation("setitem/interpreter-crash", f"{job}: worker died", {"job": repr(job)}); continue
        if r.get("skip"):
            continue
        ctx.case(("setitem",) + job, True, {k: r.get(k) for k in ("dtype", "shape", "form", "params")} if len(ctx.samples) < 5 else None)
        ctx.count("assign:" + r["form"])
        dcls = "nullable" if impl.is_nullable(r["dtype"]) else ("string" if r["dtype"] == "utf8" else "core")
        for mode, kind, detail in r["fail"]:
            ctx.violation(f"setitem-{r['form']}/{dcls}/{(r.get('params') or {}).get('update', (r.get('params') or {}).get('op', ''))}/{kind}",
                          f"{r['dtype']}{r['shape']} {r['form']} {r.get('params')} {mode}: {kind}: {detail}",
                          {**{k: r.get(k) for k in ("dtype", "shape", "form", "params")}, "mode": mode, "kind": kind, "detail": detail})
    # sharing table
    sd = ["int64", "float32", "bool", "utf8", "nint64", "nbool", "nutf8", "int8"]
    from .. import setitemtie
    setitemtie.run(ctx, 150 if quick else 3000)
    # graph-level tie: coordinate grid + index + Expand + ScatterND (Model/TGraphScatter.setitemGraph; Props/C09Scatter.lean)
    from .. import scattertie
    scattertie.run(ctx, 120 if quick else 1500, label="setitem", kinds=("setitem", "setitem", "setitem_mask", "setitem_int"))
    sjobs = [(fn, d, m) for fn in list(PURE_CALLS) + list(NO_COPY) for d in sd for m in ("eager", "lazy")]
    rows = tables.pmap(sharing_row, sjobs, chunk=16, strict=True)
    table = []
    for (fn, d, m), r in zip(sjobs, rows):
        if isinstance(r, tables.Crashed) or "skip" in r:
            continue
        ctx.case(("sharing", fn, d, m), True)
        ctx.count("sharing-rows")
        explicit = fn in NO_COPY
        table.append((fn, d, m, r["shared"], explicit))
        if not explicit:
            if r["shared"] or r["same_object"]:
                ctx.violation(f"{fn}/{'nullable' if impl.is_nullable(d) else d}/returns-argument-storage",
                              f"{fn}({d}, {m}) hands back {'its argument' if r['same_object'] else str(r['shared']) + ' core array(s) of its argument'}",
                              {"function": fn, "dtype": d, "mode": m, **r})
            if r.get("arg_changed") or r.get("arg_cells_changed") or r.get("arg_dtype_changed"):
                ctx.violation(f"{fn}/{d}/modifies-argument", f"{fn}({d}, {m}) changed its argument", {"function": fn, "dtype": d, "mode": m, **r})
            if r.get("write_through"):
                ctx.violation(f"{fn}/{d}/write-through", f"writing into {fn}({d}) changed the argument", {"function": fn, "dtype": d, **r})
    ctx.extra["sharing_table_rows"] = len(table)
    # histories
    hjobs = [(ctx.seed * 9973 + k,) for k in range(120 if quick else 2500)]
    for job, r in tables.pairs(ctx, hjobs, tables.pmap(history_worker, hjobs, chunk=8)):
        if isinstance(r, tables.Crashed):
            ctx.violation("history/interpreter-crash", f"{job}: worker died", {"job": repr(job)}); continue
        inplace = any("=" in s and ("[" in s.split("=")[0] or "+=" in s or "*=" in s) for s in r["steps"])
        ctx.case(("history",) + job, inplace, {"dtype": r["dtype"], "steps": r["steps"]} if len(ctx.samples) < 8 and inplace else None)
        ctx.count("history-steps", len(r["steps"]))
        for q, detail in r["fail"]:
            last = detail.split(":")[0].replace("after ", "")
            fnname = last.split("=")[-1].strip().split("(")[0] if "(" in last else "inplace"
            ctx.violation(f"history/{fnname}/{'nullable' if impl.is_nullable(r['dtype']) else r['dtype']}/other-array-changed",
                          f"{r['dtype']}{r['shape']}: {'; '.join(r['steps'])} :: {detail}", {"dtype": r["dtype"], "steps": r["steps"], "detail": detail})
