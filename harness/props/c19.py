"""C19 — spox interop, eager_propagate and user-defined dtypes obey the same laws.

(1) from_spox_var(spox_var(a)) for every core dtype, lazy and data-holding: same dtype / static shape /
exported results, value not retained; programs interleaving ndonnx calls with directly applied ONNX
operators vs NumPy.  (2) User functions wrapped with eager_propagate, called with random nested
argument structures (lists, tuples, dicts, slices; string and nullable arrays; 1..3 outputs): all data
=> values equal the traced model's outputs; any placeholder => outputs stay lazy (Lean:
Props/C19.constant_inputs_iff); in-place work inside the wrapped function is applied once.
(3) A user struct dtype: asarray / to_numpy / model I/O apply parse and assemble as inverses, layout
functions keep the field layout (C11 covers the arrangement)."""
from __future__ import annotations

import random

import numpy as np

from .. import common, impl, tables


def spox_worker(job):
    import spox.opset.ai.onnx.v19 as op
    from .. import progs
    ndx = impl.ndx
    dtype, seed = job
    rng = random.Random(seed)
    rec = {"dtype": dtype, "fail": []}
    shape = tuple(rng.choice([1, 2, 3]) for _ in range(rng.choice([0, 1, 2])))
    v = impl.token_array(shape, dtype, salt=seed)
    for mode in ("lazy", "eager"):
        a = ndx.array(shape=tuple("N" if (i == 0 and rng.random() < 0.5) else n for i, n in enumerate(shape)), dtype=impl.dt(dtype)) if mode == "lazy" else ndx.asarray(v)
        b = ndx.from_spox_var(a.spox_var())
        if b.dtype != a.dtype:
            rec["fail"].append((mode, "dtype", f"{b.dtype} != {a.dtype}"))
        if tuple(b._static_shape) != tuple(a._static_shape):
            rec["fail"].append((mode, "static-shape", f"{b._static_shape} != {a._static_shape}"))
        if b.to_numpy() is not None:
            rec["fail"].append((mode, "value-retained", "from_spox_var must not retain a build-time value"))
        try:
            if mode == "lazy":
                c = b[...] if dtype == "utf8" else b
                m = ndx.build({"a": a}, {"b": c, "a2": a.copy()})
                out = impl.run_model(m, impl.feed("a", v, dtype), {"b": c, "a2": a})
                if not progs.same_value(out["b"], out["a2"]):
                    rec["fail"].append((mode, "results-differ", f"{impl.canon(out['b'])} != {impl.canon(out['a2'])}"[:300]))
            else:
                m = ndx.build({}, {"b": b})
                out = impl.run_model(m, {}, {"b": b})
                if not progs.same_value(out["b"], v):
                    rec["fail"].append((mode, "results-differ", f"{impl.canon(out['b'])} != {impl.canon(v)}"[:300]))
        except Exception as e:
            rec["fail"].append((mode, "raises", f"{type(e).__name__}: {str(e)[:200]}"))
    # mixed program: ndonnx -> spox operator -> ndonnx
    if dtype in ("float32", "float64"):
        try:
            x = ndx.array(shape=("N",), dtype=impl.dt(dtype))
            y = ndx.from_spox_var(op.relu((x * 2 - 1).spox_var()))
            z = ndx.from_spox_var(op.sigmoid(y.spox_var())) + ndx.asarray(1, dtype=impl.dt(dtype))
            m = ndx.build({"x": x}, {"z": z, "y": y})
            xv = np.array([-1.0, 0.25, 2.0], dtype=dtype)
            out = impl.run_model(m, {"x": xv}, {"z": z, "y": y})
            ry = np.maximum(xv * 2 - 1, 0).astype(dtype)
            rz = (1 / (1 + np.exp(-ry.astype(np.float64))) + 1).astype(dtype)
            if not np.allclose(out["y"], ry) or not np.allclose(out["z"], rz, rtol=1e-5) or out["z"].dtype != np.dtype(dtype):
                rec["fail"].append(("lazy", "mixed-program", f"{out['z'].tolist()} != {rz.tolist()}"))
        except Exception as e:
            rec["fail"].append(("lazy", "mixed-program-raises", f"{type(e).__name__}: {str(e)[:200]}"))
    return rec


def _build_tree(rng, leaves, depth=0):
    """Random nested structure over the given leaf indices."""
    if len(leaves) == 1 and (depth > 0 or rng.random() < 0.5):
        return ("leaf", leaves[0])
    k = rng.randrange(1, len(leaves) + 1) if len(leaves) > 1 else 1
    parts, rest = [], list(leaves)
    while rest:
        n = rng.randrange(1, max(2, len(rest) // max(1, k) + 1))
        parts.append(rest[:n]); rest = rest[n:]
    kind = rng.choice(["list", "tuple", "dict", "slice" if len(parts) <= 3 and depth < 2 else "list"])
    subs = [_build_tree(rng, p, depth + 1) for p in parts]
    if kind == "slice":
        subs = (subs + [("none",), ("none",)])[:3]
    return (kind, subs)


def _materialise(tree, arrays):
    t = tree[0]
    if t == "leaf":
        return arrays[tree[1]]
    if t == "none":
        return None
    subs = [_materialise(s, arrays) for s in tree[1]]
    if t == "list":
        return subs
    if t == "tuple":
        return tuple(subs)
    if t == "dict":
        return {f"k{i}": s for i, s in enumerate(subs)}
    return slice(*subs)


def _collect(obj, out):
    ndx = impl.ndx
    if isinstance(obj, ndx.Array):
        out.append(obj)
    elif isinstance(obj, (list, tuple)):
        for o in obj:
            _collect(o, out)
    elif isinstance(obj, dict):
        for o in obj.values():
            _collect(o, out)
    elif isinstance(obj, slice):
        for o in (obj.start, obj.stop, obj.step):
            _collect(o, out)


def tree_token(tree, flags):
    t = tree[0]
    if t == "leaf":
        return "A1" if flags[tree[1]] else "A0"
    if t == "none":
        return "O"
    inner = " ".join(tree_token(s, flags) for s in tree[1])
    return {"list": "[", "tuple": "[", "dict": "{", "slice": "<"}[t] + " " + inner + " " + {"list": "]", "tuple": "]", "dict": "}", "slice": ">"}[t]


def propagate_worker(job):
    from ndonnx._propagation import eager_propagate
    from .. import progs
    ndx = impl.ndx
    seed, = job
    rng = random.Random(f"c19p/{seed}")
    n = rng.randrange(1, 5)
    dts = [rng.choice(["int64", "float64", "int32", "utf8", "nint64", "bool", "nutf8", "float32"]) for _ in range(n)]
    shape = (rng.choice([1, 2, 3]),)
    vals = [impl.token_array(shape, d, salt=seed + i) for i, d in enumerate(dts)]
    lazy = [rng.random() < 0.25 for _ in range(n)] if rng.random() < 0.5 else [False] * n
    arrays = [ndx.array(shape=shape, dtype=impl.dt(d)) if lz else ndx.asarray(v) for d, v, lz in zip(dts, vals, lazy)]
    tree = _build_tree(rng, list(range(n)))
    n_out = rng.randrange(1, 4)
    use_kw = rng.random() < 0.4
    inplace = rng.random() < 0.3 and not any(lazy)
    rec = {"dtypes": dts, "lazy": lazy, "tree": tree_token(tree, [not l for l in lazy]), "n_out": n_out, "kw": use_kw, "inplace": inplace, "fail": []}

    def body(found):
        outs = []
        for k in range(n_out):
            a = found[k % len(found)]
            core = impl.dtname(a.dtype)
            base = core[1:] if impl.is_nullable(core) else core
            if base == "utf8":
                outs.append(a + "!")
            elif base == "bool":
                outs.append(ndx.logical_not(a))
            else:
                outs.append(a * 2 + 1)
        return outs

    @eager_propagate
    def fn(*args, **kwargs):
        found = []
        _collect(list(args), found); _collect(kwargs, found)
        if inplace:
            for a in found:
                if impl.dtname(a.dtype) in ("int64", "float64", "int32", "float32"):
                    a += 1            # non-idempotent in-place work: must be applied exactly once
        outs = body(found)
        return outs[0] if n_out == 1 else tuple(outs)

    arg = _materialise(tree, arrays)
    try:
        res = fn(**{"kw": arg}) if use_kw else fn(arg)
    except Exception as e:
        rec["fail"].append(("raises", f"{type(e).__name__}: {str(e)[:200]}")); return rec
    res = [res] if n_out == 1 else list(res)
    all_data = not any(lazy)
    # expected values with NumPy
    def np_body(vs):
        outs = []
        for k in range(n_out):
            v = vs[k % len(vs)]
            d = np.ma.getdata(v)
            if d.dtype.kind == "U":
                o = np.char.add(d, "!")
            elif d.dtype.kind == "b":
                o = ~d
            else:
                o = d * np.asarray(2).astype(d.dtype) + np.asarray(1).astype(d.dtype)
            outs.append(np.ma.masked_array(o, mask=np.ma.getmaskarray(v)) if isinstance(v, np.ma.MaskedArray) else o)
        return outs
    order = []
    _collect(arg, order)
    idx = [next(i for i, a in enumerate(arrays) if a is o) for o in order]
    vs = [vals[i] for i in idx]
    bumped = [dts[i] in ("int64", "float64", "int32", "float32") for i in idx]
    if inplace:
        vs = [(v + np.asarray(1).astype(v.dtype) if b else v) for v, b in zip(vs, bumped)]
    want = np_body(vs)
    for k, r in enumerate(res):
        val = r.to_numpy()
        if all_data:
            if val is None:
                rec["fail"].append(("no-value-for-data-holding-arguments", f"output {k}")); continue
            if not progs.same_value(val, want[k]):
                rec["fail"].append(("wrong-values", f"output {k}: {impl.canon(val)} != {impl.canon(want[k])}"[:300]))
        else:
            depends_on_lazy = lazy[idx[k % len(idx)]]
            if val is not None and depends_on_lazy:
                rec["fail"].append(("value-reported-for-placeholder", f"output {k}"))
    if inplace and all_data:
        for i, a in zip(idx, order):
            d = np.ma.getdata(vals[i])
            if dts[i] in ("int64", "float64", "int32", "float32"):
                now = a.to_numpy()
                if now is None or not progs.same_value(now, vals[i] + np.asarray(1).astype(d.dtype)):
                    rec["fail"].append(("in-place-update-not-applied-once", f"argument {i}: {impl.canon(now) if now is not None else None}, expected +1 once"[:300]))
    return rec


def struct_worker(job):
    from .. import userdtype, progs
    ndx = impl.ndx
    shape, = job
    rec = {"shape": list(shape), "fail": []}
    v = userdtype.pair_value(shape, salt=len(shape))
    try:
        a = ndx.asarray(v, dtype=userdtype.PAIR)
        back = a.to_numpy()
        if back.shape != v.shape or any(not np.array_equal(back[f], v[f]) for f in ("lo", "hi_null")) or not np.array_equal(back["hi"][~v["hi_null"]], v["hi"][~v["hi_null"]]):
            rec["fail"].append(("asarray-to_numpy-not-inverse", f"{back.tolist()} != {v.tolist()}"[:300]))
        x = ndx.array(shape=tuple("N" if i == 0 else n for i, n in enumerate(shape)), dtype=userdtype.PAIR)
        y = ndx.reshape(x, (-1,)) if shape else x.copy()
        m = ndx.build({"x": x}, {"y": y})
        names_in = [i.name for i in m.graph.input]; names_out = [o.name for o in m.graph.output]
        if names_in != ["x_lo", "x_hi_values", "x_hi_null"] or names_out != ["y_lo", "y_hi_values", "y_hi_null"]:
            rec["fail"].append(("field-layout", f"{names_in} {names_out}"))
        sess = impl.session(m)
        parsed = userdtype.PAIR._parse_input(v)
        feeds = {"x_lo": parsed["lo"]["data"], "x_hi_values": parsed["hi"]["values"]["data"], "x_hi_null": parsed["hi"]["null"]["data"]}
        raw = dict(zip(names_out, sess.run(None, feeds)))
        out = userdtype.PAIR._assemble_output({"lo": raw["y_lo"], "hi": np.ma.masked_array(raw["y_hi_values"], mask=raw["y_hi_null"])})
        want = v.reshape(-1) if shape else v
        if out.shape != want.shape or not np.array_equal(out["lo"], want["lo"]) or not np.array_equal(out["hi_null"], want["hi_null"]):
            rec["fail"].append(("model-io-not-inverse", f"{out.tolist()} != {want.tolist()}"[:300]))
        if y.dtype != userdtype.PAIR:
            rec["fail"].append(("dtype-not-preserved", str(y.dtype)))
    except Exception as e:
        rec["fail"].append(("raises", f"{type(e).__name__}: {str(e)[:200]}"))
    return rec


def run(ctx: common.Ctx):
    ctx.extra["rule"] = (
        "(1) spox round trip for 12 core dtypes x shapes x {lazy, data-holding} and mixed ndonnx/spox programs; (2) "
        "eager_propagate-wrapped functions with random nested argument trees (1-4 array leaves of 8 dtypes incl. string/"
        "nullable, lists/tuples/dicts/slices, positional or keyword, 1-3 outputs, optional non-idempotent in-place work, "
        "random subsets lazy); (3) user struct dtype round trips over 6 shapes; distinct = distinct cases; non-trivial = nested or mixed")
    quick = ctx.tier == "quick"
    import zlib
    jobs = [(d, zlib.crc32(f"{d}/{ctx.seed}/{k}".encode())) for d in impl.CORE for k in range(3 if quick else 25)]
    for job, r in tables.pairs(ctx, jobs, tables.pmap(spox_worker, jobs, chunk=6)):
        if isinstance(r, tables.Crashed):
            ctx.violation("spox/interpreter-crash", f"{job}", {"job": repr(job)}); continue
        ctx.case(("spox",) + job, True)
        for mode, kind, detail in r["fail"]:
            ctx.violation(f"spox-roundtrip/{r['dtype']}/{mode}/{kind}", f"from_spox_var(spox_var(a)) {r['dtype']} {mode}: {kind}: {detail}", {"dtype": r["dtype"], "mode": mode, "kind": kind, "detail": detail})
    pjobs = [(ctx.seed * 7001 + k,) for k in range(150 if quick else 2500)]
    pres = tables.pmap(propagate_worker, pjobs, chunk=8)
    # Lean model: constant_inputs for the same argument trees
    for job, r in tables.pairs(ctx, pjobs, pres):
        if isinstance(r, tables.Crashed):
            ctx.violation("eager_propagate/interpreter-crash", f"{job}", {"job": repr(job)}); continue
        nested = any(ch in r["tree"] for ch in "[{<")
        ctx.case(("propagate",) + job, nested, {k: r[k] for k in ("dtypes", "lazy", "tree", "n_out", "kw", "inplace")} if len(ctx.samples) < 8 and nested else None)
        ctx.count("tree-depth:" + str(max(0, r["tree"].count("[") + r["tree"].count("{") + r["tree"].count("<"))))
        for kind, detail in r["fail"]:
            ctx.violation(f"eager_propagate/{'inplace' if r['inplace'] else 'pure'}/{kind}",
                          f"wrapped fn, args {r['tree']} dtypes {r['dtypes']} lazy {r['lazy']} outputs {r['n_out']}: {kind}: {detail}",
                          {**{k: r[k] for k in ("dtypes", "lazy", "tree", "n_out", "kw", "inplace")}, "kind": kind, "detail": detail})
    sjobs = [((),), ((3,),), ((2, 2),), ((0,),), ((1, 3, 1),), ((2, 0),)]
    for job, r in tables.pairs(ctx, sjobs, tables.pmap(struct_worker, sjobs, workers=1)):
        ctx.case(("struct",) + job, True)
        for kind, detail in r["fail"]:
            ctx.violation(f"user-struct/{kind}", f"Pair dtype, shape {r['shape']}: {kind}: {detail}", {"shape": r["shape"], "kind": kind, "detail": detail})
