"""C18 — export is deterministic, history-independent and free of side effects.

Metamorphic runs: the same traced programs (a fixed battery incl. the library constants e/inf/nan/pi,
plus random programs) are built (i) in a fresh interpreter, (ii) in a fresh interpreter after a prefix H
of unrelated activity (tracing, eager evaluation, builds, failing calls, calls that receive library
constants and user arrays of other dtypes), (iii) twice in a row; serialized models must be byte-identical.
build / to_numpy / repr / shape must not alter arrays; the library constants and dtype singletons are
fingerprinted before and after.  Lean: Props/C18.lean (no hidden component in the state machine)."""
from __future__ import annotations

import hashlib
import json
import os
import subprocess
import sys

from .. import common

CHILD = r'''
import sys, json, hashlib, warnings, random
warnings.filterwarnings("ignore")
sys.path.insert(0, "/verif")
import numpy as np
import ndonnx as ndx
from harness import progs, impl
cfg = json.load(sys.stdin)
rng = random.Random(cfg["seed"])


def fingerprint():
    out = {}
    for n in ("e", "inf", "nan", "pi"):
        c = getattr(ndx, n)
        out[n] = (impl.dtname(c.dtype), repr(c.to_numpy().tolist()), tuple(c.shape))
    for d in impl.ALL_DTYPES:
        out["ops:" + d] = type(impl.dt(d)._ops).__name__
    return out


def battery():
    """Fixed traced programs, several of which touch the library constants."""
    res = {}
    x = ndx.array(shape=("N",), dtype=ndx.float32)
    res["where-nan"] = ({"x": x}, {"o": ndx.where(x > 0, x, ndx.nan)})
    x = ndx.array(shape=("N", 2), dtype=ndx.float64)
    res["pi-e"] = ({"x": x}, {"o": x * ndx.pi + ndx.e, "p": ndx.sin(x) < ndx.inf})
    a = ndx.array(shape=(3,), dtype=ndx.nint32); b = ndx.array(shape=(3,), dtype=ndx.int8)
    res["nullable"] = ({"a": a, "b": b}, {"s": a + b, "f": ndx.additional.fill_null(a, 7)})
    s = ndx.array(shape=("K",), dtype=ndx.utf8)
    res["strings"] = ({"s": s}, {"t": s + "x", "e": s == "a"})
    m = ndx.array(shape=("N", "M"), dtype=ndx.int64)
    res["layout"] = ({"m": m}, {"r": ndx.roll(m, 2, axis=1), "c": ndx.cumulative_sum(m, axis=0), "q": ndx.sum(m, axis=-1, keepdims=True)})
    res["constants-only"] = ({}, {"k": ndx.asarray([1, 2, 3]) * 2, "n": ndx.nan + 1})
    # Python scalar operands that compare (and hash) equal but denote different values or kinds: -0.0 / 0.0 / 0 / False,
    # 1 / 1.0 / True -- as operands of placeholders and of constants (where the folded value shows the difference)
    x = ndx.array(shape=("N",), dtype=ndx.float64)
    k = ndx.asarray(np.array([1.0, -2.0]))
    res["scalar-twins"] = ({"x": x}, {"m": x * -0.0, "d": x / -0.0, "a": ndx.atan2(x, -0.0), "p": x + 0.0, "t": x * True, "u": x * 1,
                                      "km": k * -0.0, "kd": k / -0.0, "kp": k * 0.0, "kq": k / 0.0, "k1": k * 1, "kt": k * True, "kf": k * 1.0,
                                      "w": ndx.where(x > 0, x, -0.0), "c": ndx.clip(x, min=-0.0)})
    # results folded from *data-holding* operands: the same operations are performed in the history on operands of the
    # same dtype and shape but other values ("eager twins", see `eager_twin_ops`)
    res["eager-twins"] = ({}, eager_twin_ops(0))
    return res


def eager_twin_ops(variant: int):
    """One family of operations on data-holding operands; `variant` selects the values (same dtypes and shapes)."""
    names = [["bob", "al", "bob"], ["al", "bob", "cy"], ["x", "x", "bob"]][variant % 3]
    ints = [[1, 2, 3], [3, 2, 1], [2, 2, 2]][variant % 3]
    flts = [[0.5, -1.0, 2.0], [2.0, 0.5, -1.0], [1.0, 1.0, 1.0]][variant % 3]
    s = ndx.asarray(np.array(names)); i = ndx.asarray(np.array(ints, dtype=np.int64)); f = ndx.asarray(np.array(flts, dtype=np.float32))
    ns = ndx.asarray(np.ma.masked_array(np.array(names), mask=[False, variant % 2 == 1, False]))
    ni = ndx.asarray(np.ma.masked_array(np.array(ints, dtype=np.int32), mask=[variant % 2 == 0, False, False]))
    outs = {"se": s == "bob", "sn": s != "al", "si": ndx.additional.isin(s, ["al", "cy"]), "sc": s + "x", "ss": s == s[::-1],
            "nse": ns == "bob", "nsf": ndx.additional.fill_null(ns, "?"),
            "ie": i == 2, "im": i * 2, "is": ndx.sum(i), "ic": ndx.cumulative_sum(i), "ii": ndx.additional.isin(i, [2, 5]),
            "fe": f > 0.75, "fm": f * 2, "fw": ndx.where(f > 0, f, 0.0),
            "nie": ni == 2, "nif": ndx.additional.fill_null(ni, 9), "nis": ndx.sum(ni)}
    try:
        outs["sm"] = ndx.additional.static_map(s, {"bob": 1, "al": 2}, default=0)
    except Exception:
        pass
    return outs


def history():
    """Unrelated activity: must not influence later builds."""
    acts = []
    f32 = ndx.asarray(np.ma.masked_array(np.array([1.0, 2.0], dtype=np.float32), mask=[False, True]))
    i32 = ndx.asarray(np.ma.masked_array(np.array([1, 2], dtype=np.int32), mask=[True, False]))
    user = ndx.asarray(7)
    calls = [
        lambda: ndx.additional.fill_null(f32, ndx.nan), lambda: ndx.additional.fill_null(i32, user), lambda: ndx.additional.fill_null(f32, ndx.pi),
        lambda: ndx.where(f32 > 1, f32, ndx.inf), lambda: ndx.asarray([1, 2]) + ndx.e, lambda: ndx.astype(ndx.pi, ndx.float32),
        lambda: ndx.clip(f32, min=ndx.e, max=ndx.pi), lambda: ndx.asarray(np.array([1.5], dtype=np.float32)) * ndx.nan,
        lambda: ndx.add(ndx.asarray(["a"]), 1), lambda: ndx.sin(ndx.asarray(["a"])), lambda: ndx.asarray([1, 2])[5], lambda: ndx.reshape(ndx.asarray([1, 2, 3]), (2, 2)),
        lambda: ndx.build({}, {"z": ndx.asarray([1.0]) + ndx.pi}), lambda: repr(ndx.nan), lambda: ndx.nan.to_numpy(), lambda: ndx.inf.shape,
        lambda: ndx.maximum if False else ndx.max(ndx.asarray([ndx.e.to_numpy().item(), 1.0])),
        lambda: ndx.isnan(ndx.nan), lambda: ndx.equal(ndx.inf, ndx.inf), lambda: ndx.logical_and(ndx.asarray(True), True),
    ]
    # systematic: every library constant and two user arrays as every array-like argument of functions that take
    # values besides their main operand, against operands of other dtypes, on data and on placeholders
    user_f = ndx.asarray(2.5)
    lz32 = ndx.array(shape=("N",), dtype=ndx.float32)
    lzi = ndx.array(shape=("N",), dtype=ndx.int32)
    def sweep_args():
        consts = [ndx.pi, ndx.e, ndx.nan, ndx.inf, user, user_f]
        for c in consts:
            for t in (f32, i32, lz32, lzi, ndx.asarray(np.array([1, 2], dtype=np.int16)), ndx.asarray(np.array([1.0, 2.0], dtype=np.float32))):
                for call in (
                    lambda: ndx.full_like(t, c), lambda: ndx.full_like(t, c, dtype=ndx.float32), lambda: ndx.full((2,), c),
                    lambda: ndx.full((2,), c, dtype=ndx.int32), lambda: ndx.where(t > 0, t, c), lambda: ndx.where(t > 0, c, t),
                    lambda: ndx.clip(t, min=c), lambda: ndx.clip(t, max=c), lambda: ndx.additional.fill_null(t, c),
                    lambda: ndx.add(t, c), lambda: ndx.multiply(c, t), lambda: ndx.pow(t, c), lambda: ndx.less(t, c), lambda: ndx.equal(c, t),
                    lambda: ndx.astype(c, t.dtype), lambda: ndx.asarray(c, dtype=t.dtype),  # (explicit copy=False requests may re-type in place: excepted)
                    lambda: ndx.broadcast_to(c, (2,)), lambda: ndx.reshape(c, (1,)), lambda: ndx.expand_dims(c, 0), lambda: ndx.concat([t, ndx.reshape(c, (1,))]),
                    lambda: ndx.stack([c, c]), lambda: ndx.searchsorted(t, ndx.reshape(c, (1,))), lambda: ndx.additional.isin(t, [1]),
                    lambda: ndx.result_type(t, c), lambda: ndx.arange(0, c), lambda: ndx.linspace(0, c, 3), lambda: t.__setitem__(0, c),
                    lambda: ndx.additional.make_nullable(ndx.reshape(c, (1,)), ndx.asarray([False])),
                ):
                    try:
                        call()
                    except Exception:
                        pass
    if cfg["history_len"]:
        # eager twins of the battery's data-holding computations, on other values (both orders of first use per seed)
        for variant in ([1, 2] if rng.random() < 0.5 else [2, 1]):
            try:
                eager_twin_ops(variant)
            except Exception:
                pass
        sweep_args()
        # the "twin" scalars as operands of unrelated arrays, in both orders of first use (per seed)
        twins = [0.0, -0.0, 0, False, 1, 1.0, True, 2, 2.0, -1, -1.0]
        rng.shuffle(twins)
        for sc in twins:
            for t in (f32, i32, lz32, lzi, ndx.asarray(np.array([1.0, -1.0]))):
                for call in (lambda: t * sc, lambda: t + sc, lambda: sc - t, lambda: ndx.where(t > 0, t, sc), lambda: ndx.maximum(t, sc) if hasattr(ndx, "maximum") else None,
                             lambda: t == sc, lambda: ndx.clip(t, min=sc), lambda: ndx.full_like(t, sc)):
                    try:
                        call()
                    except Exception:
                        pass
    for k in range(cfg["history_len"]):
        try:
            rng.choice(calls)()
        except Exception:
            pass
        if k % 3 == 0:
            p = progs.generate(rng, seed=rng.randrange(10 ** 6))
            if p is not None:
                try:
                    _, arrs, res = progs.trace(p, set(range(len(p["inputs"]))), "symbolic", p["gen_sizes"], p["seed"])
                    ndx.build({f"i{j}": a for j, a in enumerate(arrs)}, {f"o{j}": r for j, r in enumerate(res)})
                    progs.run_eager(p, p["gen_sizes"], p["seed"])
                except Exception:
                    pass
    try:
        user_dtype = impl.dtname(user.dtype)
    except Exception:
        user_dtype = "?"
    return {"user_array_dtype": user_dtype, "user_array_value": repr(user.to_numpy().tolist()),
            "user_float_array": [impl.dtname(user_f.dtype), repr(user_f.to_numpy().tolist())]}


def read_side_effects():
    """Reading an array (repr / str / to_numpy / shape / build) must not alter it, its fields, or the caller's buffers."""
    bad = []
    cases = {
        "nint32": (np.array([1, 2, 3, 4], dtype=np.int32), [False, True, False, True]),
        "nfloat64": (np.array([1.5, np.nan, -3.0, 7.25]), [False, True, True, False]),
        "nbool": (np.array([True, True, False, True]), [False, True, False, False]),
        "nutf8": (np.array(["a", "junk", "c", "zz"]), [False, True, False, True]),
        "nuint8": (np.array([[1, 255], [7, 9]], dtype=np.uint8), [[True, False], [False, True]]),
        "int64": (np.array([5, 6, 7], dtype=np.int64), None),
        "utf8": (np.array(["x", "yy"]), None),
    }
    for name, (data, mask) in cases.items():
        try:
            src = np.ma.masked_array(data.copy(), mask=mask) if mask is not None else data.copy()
            keep = np.ma.getdata(src).copy()
            a = ndx.asarray(src)
            fields = (lambda: {"v": a.values + a.values if name not in ("nbool", "nutf8") else a.values, "n": a.null, "a": a}) if mask is not None else (lambda: {"a": a, "d": a[...]})
            b1 = ndx.build({}, fields()).SerializeToString()
            v1 = (a.values if mask is not None else a).to_numpy().copy()
            for _ in range(2):
                repr(a); str(a); a.to_numpy(); a.shape; a.ndim; a.dtype
                if mask is not None:
                    a.null.to_numpy(); repr(a.values)
                ndx.build({}, {"a": a})
            v2 = (a.values if mask is not None else a).to_numpy()
            b2 = ndx.build({}, fields()).SerializeToString()
            same_v = np.array_equal(v1.astype(str), v2.astype(str))
            same_src = np.array_equal(np.ma.getdata(src).astype(str), keep.astype(str))
            if b1 != b2 or not same_v or not same_src:
                bad.append({"dtype": name, "export_changed": b1 != b2, "field_values_changed": not same_v, "callers_buffer_changed": not same_src,
                            "before": v1.astype(str).tolist(), "after": v2.astype(str).tolist()})
        except Exception as e:
            bad.append({"dtype": name, "raised": f"{type(e).__name__}: {str(e)[:150]}"})
    return bad


out = {"fp_before": fingerprint(), "read_side_effects": read_side_effects()}
if cfg["history_len"]:
    out["history"] = history()
out["fp_after_history"] = fingerprint()
models = {}
for name, (ins, outs) in battery().items():
    b1 = ndx.build(ins, outs).SerializeToString()
    b2 = ndx.build(ins, outs).SerializeToString()
    models[name] = {"sha": hashlib.sha256(b1).hexdigest(), "twice_equal": b1 == b2, "size": len(b1)}
for seed in cfg["program_seeds"]:
    prng = random.Random(f"c18/{seed}")
    p = progs.generate(prng, seed=seed)
    if p is None:
        continue
    try:
        _, arrs, res = progs.trace(p, set(range(len(p["inputs"]))), "symbolic", p["gen_sizes"], seed)
        ins = {f"i{j}": a for j, a in enumerate(arrs)}; outs = {f"o{j}": r for j, r in enumerate(res)}
        vals_before = [r.to_numpy() is not None for r in res]
        b1 = ndx.build(ins, outs).SerializeToString()
        for r in res:
            repr(r); r.shape; r.to_numpy()
        b2 = ndx.build(ins, outs).SerializeToString()
        models[f"prog{seed}"] = {"sha": hashlib.sha256(b1).hexdigest(), "twice_equal": b1 == b2, "size": len(b1), "desc": progs.describe(p)[:300]}
    except Exception as e:
        models[f"prog{seed}"] = {"error": f"{type(e).__name__}: {str(e)[:100]}"}
out["models"] = models
out["fp_after_builds"] = fingerprint()
json.dump(out, sys.stdout)
'''


def child(cfg):
    p = subprocess.run([sys.executable, "-c", CHILD], input=json.dumps(cfg), capture_output=True, text=True, timeout=1500,
                       env={**os.environ, "PYTHONWARNINGS": "ignore", "PYTHONHASHSEED": str(cfg.get("hashseed", 0))})
    if p.returncode != 0:
        raise common.Infra("C18 child failed: " + p.stderr[-1500:])
    return json.loads(p.stdout)


def run(ctx: common.Ctx):
    ctx.extra["rule"] = (
        "a fixed battery of 6 traced models (using ndx.e/inf/nan/pi, nullable, strings, layout, constants-only) and "
        "random programs, built in child interpreters: fresh, and after histories of 20-60 unrelated actions (three history "
        "seeds, different PYTHONHASHSEED); serialized bytes compared across runs and for two builds in a row; library "
        "constants and dtype singletons fingerprinted before/after; distinct = distinct (model, history); non-trivial = all")
    quick = ctx.tier == "quick"
    seeds = [ctx.seed * 17 + k for k in range(25 if quick else 300)]
    base = child({"seed": 0, "history_len": 0, "program_seeds": seeds, "hashseed": 0})
    runs = [("fresh-other-hashseed", child({"seed": 0, "history_len": 0, "program_seeds": seeds, "hashseed": 12345}))]
    for hs in ([1, 2] if quick else [1, 2, 3, 4, 5, 6]):
        runs.append((f"after-history-{hs}", child({"seed": ctx.seed * 100 + hs, "history_len": 20 + 20 * (hs % 3), "program_seeds": seeds, "hashseed": hs})))
    for name, m in base["models"].items():
        ctx.case(("fresh", name), True, {"model": name, **m} if len(ctx.samples) < 4 else None)
        if "error" in m:
            continue
        if not m["twice_equal"]:
            ctx.violation(f"build/{name if not name.startswith('prog') else 'program'}/two-builds-in-a-row-differ", f"{name}: two consecutive builds differ (and/or reading values changed the export)", {"model": name, **m})
    for label, r in [("fresh", base)] + runs:
        for b in r.get("read_side_effects", []):
            ctx.case(("read-side-effects", label, b["dtype"]), True)
            ctx.violation(f"read/{b['dtype']}/{'raises' if 'raised' in b else 'alters-array-or-export'}",
                          f"{label}: repr/str/to_numpy/shape/build of a data-holding {b['dtype']} array changed it: {b}"[:500], {"run": label, **b})
    if base["fp_before"] != base["fp_after_builds"]:
        ctx.violation("constants/changed-by-builds", "library constants / dtype singletons changed by building and reading", {"before": base["fp_before"], "after": base["fp_after_builds"]})
    for label, r in runs:
        if r["fp_before"] != r["fp_after_history"] or r["fp_before"] != base["fp_before"]:
            diff = {k: (base["fp_before"].get(k), r["fp_after_history"].get(k)) for k in r["fp_after_history"] if r["fp_after_history"].get(k) != base["fp_before"].get(k)}
            ctx.violation("constants/changed-by-history", f"{label}: library constants changed by unrelated activity: {diff}", {"run": label, "diff": diff})
        h = r.get("history")
        if h and (h["user_array_dtype"] != "int64" or h["user_array_value"] != "7" or h.get("user_float_array", ["float64", "2.5"]) != ["float64", "2.5"]):
            ctx.violation("argument/changed-by-history", f"{label}: a user array passed to library functions changed: {h}", {"run": label, **h})
        for name, m in r["models"].items():
            ctx.case((label, name), True)
            b = base["models"].get(name)
            if b is None or "error" in m or "error" in b:
                continue
            if m["sha"] != b["sha"]:
                ctx.violation(f"build/{name if not name.startswith('prog') else 'program'}/{'hashseed' if 'hashseed' in label else 'history'}-dependent",
                              f"{name}: model built {label} differs from the fresh build ({m['size']} vs {b['size']} bytes) {m.get('desc', '')}",
                              {"model": name, "run": label, "fresh": b, "this": m})
            if not m["twice_equal"]:
                ctx.violation(f"build/{name if not name.startswith('prog') else 'program'}/two-builds-in-a-row-differ", f"{name} ({label})", {"model": name, "run": label})
    ctx.extra["child_interpreters"] = 1 + len(runs)
