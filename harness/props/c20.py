"""C20 — scalar conversion, truthiness, len and iteration match NumPy or refuse.

Tie (A)/(C): for every dtype x shape (ranks 0..3, extents 0..4) x {eager, lazy-static, lazy-symbolic,
lazy-unknown} the outcomes of bool / int / float / operator.index / len / iteration are observed on the
implementation and compared with (i) the Lean decision model `Ndx.protoModel` (about which
Props/C20.lean proves agreement with NumPy on every data-holding array and refusal on placeholders) and
(ii) real NumPy on the same value; iteration must yield exactly shape[0] items equal to x[i]."""
from __future__ import annotations

import itertools
import operator

import numpy as np

from .. import common, impl
from ..impl import ndx

KIND = {"bool": "boolean", "utf8": "string", "float32": "floating", "float64": "floating"}


def kind_of(d):
    c = d[1:] if impl.is_nullable(d) else d
    return KIND.get(c, "unsigned" if c.startswith("uint") else "signed")


def attempt(f, a, budget=64):
    try:
        r = f(a)
        return ("value", r)
    except (ValueError, TypeError) as e:
        return ("refuse", type(e).__name__)
    except IndexError as e:
        return ("refuse", "IndexError")
    except Exception as e:  # noqa: BLE001
        return ("other", type(e).__name__)


def iterate(a):
    items = []
    it = iter(a)
    for k, x in enumerate(it):
        items.append(x)
        if k > 64:
            raise RuntimeError("iteration did not terminate within 64 items")
    return items


def iteration_sees_updates(ctx):
    """Items are x[i] at the time they are yielded (NumPy yields views): a loop that writes row i+1 while visiting row i."""
    for d in ["int64", "float32", "nint32", "bool"]:
        for shape in [(3,), (3, 2), (4, 1)]:
            npv = impl.token_array(shape, d)
            x = ndx.asarray(npv.copy())
            ref = npv.copy()
            seen, seen_ref = [], []
            try:
                for i, row in enumerate(x):
                    seen.append(np.ma.getdata(row.to_numpy()).tolist())
                    if i + 1 < shape[0]:
                        x[i + 1, ...] = row
                for i in range(shape[0]):
                    seen_ref.append(np.ma.getdata(ref[i]).tolist())
                    if i + 1 < shape[0]:
                        ref[i + 1, ...] = ref[i]
            except Exception as e:
                ctx.violation(f"iter/eager/{d}/update-while-iterating-raises", f"{d}{list(shape)}: {type(e).__name__}: {str(e)[:150]}", {"dtype": d, "shape": shape})
                continue
            ctx.case(("iter-update", d, shape), True)
            if seen != seen_ref:
                ctx.violation(f"iter/eager/{d}/items-are-a-stale-snapshot", f"iterating {d}{list(shape)} while writing the next row: items {seen}, NumPy {seen_ref}",
                              {"dtype": d, "shape": shape, "observed": seen, "numpy": seen_ref})


def run(ctx: common.Ctx):
    ctx.extra["rule"] = (
        "all 24 dtypes (rotating over shapes) x shapes of rank 0..3 with extents 0..4 (all rank<=2, sampled rank 3) x "
        "{eager, lazy-static, lazy-symbolic, lazy-unknown}; six protocols each; distinct = distinct (dtype, shape, "
        "array kind, protocol); non-trivial = data-holding single-element/0-d arrays, or placeholders")
    quick = ctx.tier == "quick"
    shapes = [()] + [(n,) for n in range(5)] + list(itertools.product(range(5), repeat=2))
    r3 = list(itertools.product(range(4), repeat=3))
    shapes += ctx.rng.sample(r3, 12 if quick else len(r3))
    protos = [("bool", bool), ("int", int), ("float", float), ("index", operator.index), ("len", len), ("iter", iterate)]
    rows = []
    dts = impl.ALL_DTYPES
    for si, shape in enumerate(shapes):
        for dj in range(3 if quick else len(dts)):
            d = dts[(si * 5 + dj * 7 + ctx.seed) % len(dts)]
            for kind in ("eager", "lazy-static", "lazy-symbolic", "lazy-unknown", "eager-copy", "lazy-derived", "eager-updated-lazy", "eager-reshaped"):
                rows.append((d, shape, kind))
    lines, infos = [], []
    # arrays with a history behave like the plain kind they denote: a copy of data holds data; a value derived from a
    # placeholder, and a data-holding array updated in place with a placeholder, hold none (static shape known)
    BASE = {"eager-copy": "eager", "lazy-derived": "lazy-static", "eager-updated-lazy": "lazy-static", "eager-reshaped": "eager"}
    rows = [(d, shape, kind) for d, shape, kind in rows]
    for d, shape, kind0 in rows:
        kind = BASE.get(kind0, kind0)
        size = int(np.prod(shape)) if shape else 1
        if kind == "eager":
            lead = "none" if not shape else str(shape[0])
            hv = 1
        else:
            hv = 0
            lead = "none" if not shape else (str(shape[0]) if kind == "lazy-static" else "?")
        lines.append(f"proto {hv} {size} {len(shape)} {kind_of(d)} {lead} {1 if impl.is_nullable(d) else 0}")
    answers = common.model(lines)
    for (d, shape, kind0), ans in zip(rows, answers):
        kind = BASE.get(kind0, kind0)
        parts = ans.split()
        model = dict(zip([p for p, _ in protos], parts[1:7]))
        numpy_rule = dict(zip([p for p, _ in protos], parts[8:14]))
        val = impl.token_array(shape, d, salt=len(shape))
        if impl.is_nullable(d):
            val = np.ma.masked_array(np.ma.getdata(val), mask=np.zeros(shape, dtype=bool))   # no nulls: masked scalars are not fixed by NumPy
        if d.endswith("utf8"):
            val = (np.ma.masked_array(np.full(shape, "7"), mask=np.zeros(shape, dtype=bool)) if impl.is_nullable(d)
                   else np.full(shape, "7"))
        try:
            if kind0 == "eager-copy":
                a = ndx.asarray(val).copy()
            elif kind0 == "lazy-derived":
                a = ndx.array(shape=shape, dtype=impl.dt(d))[...].copy()
            elif kind0 == "eager-reshaped":
                # a data-holding array whose extents were looked at, then reshaped in place (explicit copy=False)
                size = int(np.prod(shape)) if shape else 1
                orig = (size,) if len(shape) != 1 else (1, size)
                a = ndx.asarray(val.reshape(orig))
                attempt(len, a); a.shape; a.ndim; attempt(iterate, a)
                if ndx.reshape(a, tuple(shape), copy=False) is not a:
                    raise RuntimeError("reshape(copy=False) did not act in place")
            elif kind0 == "eager-updated-lazy":
                a = ndx.asarray(val)
                a.to_numpy()
                a[...] = ndx.array(shape=(), dtype=impl.dt(d))
            elif kind == "eager":
                a = ndx.asarray(val)
            else:
                decl = shape if kind == "lazy-static" else tuple((f"D{i}" if kind == "lazy-symbolic" else None) for i in range(len(shape)))
                a = ndx.array(shape=decl, dtype=impl.dt(d))
        except Exception:
            ctx.count(f"{kind0}:construction-unsupported")
            continue
        kind = kind0 if kind0 not in BASE else kind
        npv = np.ma.getdata(val) if impl.is_nullable(d) else val
        for pname, f in protos:
            got = attempt(f, a)
            ident = (d, shape, kind0, pname)
            nontriv = kind != "eager" or (len(shape) == 0 or int(np.prod(shape)) == 1)
            ctx.case(ident, nontriv, {"dtype": d, "shape": shape, "array": kind, "protocol": pname, "outcome": got[0]}
                     if len(ctx.samples) < 8 and nontriv else None)
            ctx.count(f"{kind0}:{pname}:{got[0]}")
            sig = f"{pname}/{kind0}/{kind_of(d)}-rank{min(len(shape), 2)}{'+' if len(shape) > 2 else ''}"
            if got[0] == "other":
                ctx.violation(f"{sig}/raises-{got[1]}", f"{pname}() on {kind} {d}{list(shape)} raised {got[1]}",
                              {"dtype": d, "shape": shape, "array": kind, "protocol": pname, "observed": got})
                continue
            if kind != "eager" and pname in ("bool", "int", "float", "index") and got[0] != "refuse":
                ctx.violation(f"{sig}/placeholder-converts", f"{pname}() on a placeholder {d}{list(shape)} returned {got[1]!r}",
                              {"dtype": d, "shape": shape, "array": kind, "protocol": pname, "observed": str(got)})
                continue
            if kind != "eager" and pname in ("len", "iter") and kind != "lazy-static" and shape and got[0] != "refuse":
                ctx.violation(f"{sig}/unknown-leading-extent-accepted", f"{pname}() on {kind} {d}{list(shape)} did not refuse",
                              {"dtype": d, "shape": shape, "array": kind, "protocol": pname, "observed": str(got)[:200]})
                continue
            if got[0] != model[pname]:
                # decide who is right with NumPy (eager) / the property (lazy)
                want = numpy_rule[pname] if kind == "eager" else model[pname]
                if want != "-" and got[0] != want:
                    ctx.violation(f"{sig}/{got[0]}-instead-of-{want}",
                                  f"{pname}() on {kind} {d}{list(shape)}: {got[0]}, expected {want}",
                                  {"dtype": d, "shape": shape, "array": kind, "protocol": pname, "observed": str(got)[:200]})
                else:
                    ctx.corr_broken("scalar-protocol-model", {"row": ident, "impl": got[0], "model": model[pname]})
                continue
            # values
            if got[0] == "value":
                if pname == "iter":
                    n = shape[0]
                    items = got[1]
                    ok = len(items) == n
                    if ok and kind == "eager":
                        for i, it in enumerate(items):
                            ref = npv[i]
                            v = it.to_numpy()
                            ok = ok and tuple(v.shape) == tuple(np.shape(ref)) and np.array_equal(np.ma.getdata(v).astype(str), np.asarray(ref).astype(str))
                            # an item is x[i]: same dtype (nullable stays nullable), same null flags
                            ok = ok and impl.dtname(it.dtype) == d
                            if impl.is_nullable(d):
                                ok = ok and np.array_equal(np.ma.getmaskarray(v), np.ma.getmaskarray(npv)[i])
                    elif ok:
                        ok = all(tuple(it._static_shape) == tuple(shape[1:]) for it in items)
                    if not ok:
                        ctx.violation(f"{sig}/wrong-items", f"iteration over {kind} {d}{list(shape)} yields {len(items)} items / wrong items",
                                      {"dtype": d, "shape": shape, "array": kind, "n_items": len(items)})
                elif pname == "len":
                    if got[1] != shape[0]:
                        ctx.violation(f"{sig}/wrong-length", f"len() of {kind} {d}{list(shape)} = {got[1]}", {"shape": shape})
                elif kind == "eager":
                    np_ans = attempt(f, npv)
                    if np_ans[0] == "value" and (np_ans[1] != got[1] or type(np_ans[1]) is not type(got[1])):
                        ctx.violation(f"{sig}/wrong-value", f"{pname}() of {d}{list(shape)} = {got[1]!r}, NumPy {np_ans[1]!r}",
                                      {"dtype": d, "shape": shape, "observed": repr(got[1]), "numpy": repr(np_ans[1])})
    ctx.extra["rows"] = len(rows)
    ctx.extra["exhaustive"] = not quick
    null_element_protocols(ctx)
    iteration_sees_updates(ctx)


def null_element_protocols(ctx):
    """A single *null* element of a nullable array: `bool/int/float/index` must do what NumPy does on the same masked value
    (a value of the same type and — NaN aside — the same value, or an exception); the payload stored under the null must
    never come out as a number."""
    import warnings
    ndx = impl.ndx
    for d in ("nint32", "nfloat64", "nint64", "nfloat32", "nuint8", "nbool"):
        base = d[1:]
        payload = {"bool": True}.get(base, 20 if "int" in base else 2.5)
        for shape in [(), (1,), (1, 1)]:
            mv = np.ma.masked_array(np.full(shape, payload, dtype=base), mask=np.ones(shape, dtype=bool))
            vec = np.ma.masked_array(np.array([payload, payload, payload], dtype=base), mask=[False, True, False])
            arrays = {"asarray": lambda: ndx.asarray(mv)}
            if shape == ():
                arrays["element"] = lambda: ndx.asarray(vec)[1]
                arrays["derived-element"] = (lambda: (ndx.asarray(vec) + ndx.asarray(vec))[1]) if base != "bool" else (lambda: ndx.logical_not(ndx.asarray(vec))[1])
            for how, make in arrays.items():
                try:
                    a = make()
                except Exception:
                    ctx.count("null-element:construction-unsupported")
                    continue
                for pname, f in (("bool", bool), ("int", int), ("float", float), ("index", lambda v: [10, 11, 12][v])):
                    ident = ("null-element", d, shape, how, pname)
                    ctx.case(ident, True, {"dtype": d, "shape": shape, "array": how, "protocol": pname} if len(ctx.samples) < 10 else None)
                    ctx.count("null-element")
                    with warnings.catch_warnings():
                        warnings.simplefilter("ignore")
                        # NumPy on the very masked value the array holds (a derived null carries whatever payload the
                        # operation left under it; NumPy's bool() of a masked scalar looks at the payload)
                        npval = a.to_numpy()
                        if not (isinstance(npval, np.ma.MaskedArray) and np.ma.getmaskarray(npval).all()):
                            ctx.count("null-element:not-null-after-construction")
                            continue
                        try:
                            want = ("value", f(npval))
                        except Exception as e:  # noqa: BLE001
                            want = ("raises", type(e).__name__)
                        try:
                            got = ("value", f(a))
                        except Exception as e:  # noqa: BLE001
                            got = ("raises", type(e).__name__)
                    same = (want[0] == got[0] == "raises") or (
                        want[0] == got[0] == "value" and type(want[1]) is type(got[1]) and (want[1] == got[1] or (want[1] != want[1] and got[1] != got[1])))
                    if not same:
                        ctx.violation(f"{pname}/null-element/{base}/differs-from-numpy",
                                      f"{pname}() of a null {d} element ({how}, shape {shape}, payload {payload!r}) -> {got}, NumPy on the masked value -> {want}",
                                      {"dtype": d, "shape": list(shape), "array": how, "protocol": pname, "observed": str(got), "numpy": str(want)})
