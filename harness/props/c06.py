"""C06 — a model traced with symbolic dimensions is correct for every concrete size.

One build per (program, placeholder signature) with symbolic / unknown dims, reused across several
size assignments (extents 0, 1, 2, 3, 5, 8 incl. ones that trigger broadcasting); each run is compared
step by step with eager evaluation of the same program on the same data.  The size-generic Lean
theorems are in Props/C06.lean (index maps of roll / flip / slicing / take / tril hold for every extent)."""
from __future__ import annotations

import itertools
import random

from .. import common, tables

SIZES = [0, 1, 2, 3, 5, 8]


def worker(job):
    from .. import impl, progs
    seed, tier = job
    rng = random.Random(f"c06/{seed}")
    fam = None
    if seed % 3 == 1:
        fam = ["layout", "layout", "reduce", "index", "creation", "nullable", "where", "sort", "shortcut"]
    preset = None
    if seed % 5 == 2:
        # broadcasting through *unknown* extents: operands whose declared dims look alike (symbolic/None) but one
        # of them has run-time extent 1
        r = rng.choice([1, 2])
        full = ["A", "B"][:r]
        unit = [("U" if rng.random() < 0.7 else d) for d in full]
        if "U" not in unit:
            unit[rng.randrange(r)] = "U"
        d0 = rng.choice(progs.DT_POOL)
        preset = [{"dtype": d0, "dims": full}, {"dtype": rng.choice(["bool", "bool", d0]), "dims": unit},
                  {"dtype": rng.choice(["bool", "nbool", d0]), "dims": rng.choice([full, unit])}]
        fam = ["nullable", "nullable", "where", "binary", "logical", "cmp", "layout", "creation"]
    prog = progs.generate(rng, seed=seed, families=fam, size_generic=True, preset_inputs=preset, erase_static=(preset is None and seed % 4 == 2),
                          sizes={"A": rng.choice([1, 2, 3]), "B": rng.choice([1, 2, 3])})
    if prog is None:
        return None
    rec = {"prog": prog, "desc": progs.describe(prog), "cases": [], "fail": []}
    n = len(prog["inputs"])
    names = sorted({d for i in prog["inputs"] for d in i["dims"] if isinstance(d, str) and d != "U"})
    if not names:
        return None
    lazy_sets = [set(range(n))]
    if n > 1:
        lazy_sets.append(set(rng.sample(range(n), rng.randrange(1, n))))
    for S in lazy_sets:
        if not any(isinstance(d, str) and d != "U" for k in S for d in prog["inputs"][k]["dims"]):
            continue
        style = rng.choice(["symbolic", "unknown"])
        try:
            vals0, arrs, res = progs.trace(prog, S, style, prog["gen_sizes"], seed)
            ins = {f"i{k}": arrs[k] for k in sorted(S)}
            outs = {f"o{j}": r for j, r in enumerate(res)}
            model = impl.ndx.build(ins, outs)
            sess = impl.session(model)
        except Exception as e:
            rec["fail"].append({"lazy": sorted(S), "style": style, "kind": "trace-or-export-raises", "step": None,
                                "op": None, "detail": f"{type(e).__name__}: {str(e)[:300]}"})
            continue
        onames = [o.name for o in sess.get_outputs()]
        assigns = [dict(zip(names, c)) for c in itertools.product(SIZES, repeat=len(names))]
        rng.shuffle(assigns)
        assigns = [prog["gen_sizes"]] + assigns[: (5 if tier == "quick" else 20)]
        for sizes in assigns:
            sizes = {**prog["gen_sizes"], **sizes}
            if progs.crash_prone(prog) and 0 in sizes.values():
                continue
            sizes["U"] = 1
            case = {"lazy": sorted(S), "style": style, "sizes": {k: sizes[k] for k in names}}
            try:
                vals, _, eres = progs.run_eager(prog, sizes, seed)
                evals = [r.to_numpy() for r in eres]
            except Exception:
                continue        # the program is not admissible at these sizes (index out of range, …)
            # constants baked at trace time must agree with this size assignment for non-lazy inputs
            if any(k not in S and any(isinstance(d, str) and sizes[d] != prog["gen_sizes"][d] for d in prog["inputs"][k]["dims"])
                   for k in range(n)):
                continue
            rec["cases"].append(case)
            try:
                feeds = {}
                for k in sorted(S):
                    feeds.update(impl.feed(f"i{k}", vals[k], prog["inputs"][k]["dtype"]))
                raw = dict(zip(onames, sess.run(None, feeds)))
            except Exception as e:
                rec["fail"].append({**case, "kind": "run-raises", "step": None, "op": None,
                                    "detail": f"{type(e).__name__}: {str(e)[:300]}"})
                continue
            for j, ev in enumerate(evals):
                got = impl.collect(raw, f"o{j}", res[j])
                if not progs.same_value(got, ev):
                    if progs.same_value(got, ev, ulps=4):
                        rec["fail"].append({**case, "kind": "ulp-diff", "step": j, "op": prog["steps"][j]["op"]})
                        break
                    cause = (progs.where_cause(prog, j, vals, evals) if prog["steps"][j]["op"] == "where"
                             else progs.step_cause(prog, j, S))
                    # the exported model, or onnxruntime's graph optimiser?  (same model, optimisations disabled)
                    suffix = ""
                    try:
                        sess0 = impl.session(model, optimise=False)
                        raw0 = dict(zip([o.name for o in sess0.get_outputs()], sess0.run(None, feeds)))
                        if all(progs.same_value(impl.collect(raw0, f"o{q}", res[q]), e2) for q, e2 in enumerate(evals)):
                            suffix = "-only-with-onnxruntime-graph-optimizations"
                    except Exception:
                        pass
                    rec["fail"].append({**case, "kind": progs.diff_kind(got, ev) + suffix, "step": j,
                                        "op": prog["steps"][j]["op"], "cause": cause,
                                        "eager": str(impl.canon(ev))[:300], "model": str(impl.canon(got))[:300]})
                    break
    return rec


def run(ctx: common.Ctx):
    ctx.extra["rule"] = (
        "random programs traced once with symbolic or unknown dims (all inputs lazy, and a random subset), the "
        "same onnxruntime session run at the generation sizes and at 5 (quick) / 20 (thorough) further size "
        "assignments over {0,1,2,3,5,8} per size variable, compared step by step with eager evaluation at that "
        "size; distinct = distinct (program, lazy set, size assignment); non-trivial = sizes differ from the trace-time sizes")
    n = 220 if ctx.tier == "quick" else 2500
    recs = tables.pmap(worker, [(ctx.seed * 100003 + k, ctx.tier) for k in range(n)], chunk=4)
    report_sized(ctx, recs)
    # graph-level tie (B): with symbolic / unknown dimensions the library must export exactly the size-independent
    # terms of Model/TGraphFns.lean, whose correctness at every concrete size is Props/C06Graph.lean
    from .. import tgraph
    from . import c08
    tgraph.run_layout(ctx, 200 if ctx.tier == "quick" else 2000, styles=("symbolic", "none"), label="layout-symbolic")
    import random as _r
    cases = c08.gen_cases(ctx)
    _r.Random(ctx.seed).shuffle(cases)
    tgraph.run_getitem(ctx, cases[:1200 if ctx.tier == "quick" else 20000], styles=("symbolic", "none"), label="getitem-symbolic")
    # the data-dependent family (mask selection, nonzero, assignments, cumulative_sum, where, tril/triu, broadcast_arrays,
    # creation with run-time shapes): with symbolic / unknown dims the library must export the size-independent terms of
    # Model/TGraphScatter.lean, whose theorems (C08MaskGraph, C09Scatter, C12Nonzero, C10Cumsum, …) hold at every shape
    from .. import scattertie
    scattertie.run(ctx, 110 if ctx.tier == "quick" else 1000, styles=("symbolic", "none"), label="scatter-symbolic")


def report_sized(ctx, recs):
    nprog = 0
    for rec in recs:
        if rec is None or isinstance(rec, tables.WorkerError):
            if rec is not None:
                ctx.count("harness-exception-skipped")
            continue
        if isinstance(rec, tables.Crashed):
            ctx.violation("program/interpreter-crashed", f"worker process died or hung on job {rec.item!r}: {rec.why}",
                          {"job": repr(rec.item), "why": rec.why})
            continue
        nprog += 1
        for st in rec["prog"]["steps"]:
            ctx.count("op:" + st["op"])
        for c in rec["cases"]:
            ctx.case((rec["desc"], tuple(c["lazy"]), c["style"], tuple(sorted(c["sizes"].items()))),
                     c["sizes"] != {k: rec["prog"]["gen_sizes"][k] for k in c["sizes"]} or not c["sizes"],
                     {"program": rec["desc"], **c} if len(ctx.samples) < 6 else None)
            for k, v in c["sizes"].items():
                ctx.count(f"extent:{v}")
        for f in rec["fail"]:
            if f["kind"] == "ulp-diff":
                ctx.count("float-results-differ-within-4ulp")
                continue
            key = f"{f.get('op') or 'program'}/{f.get('cause') or 'traced'}/{f['kind']}"
            ctx.violation(key, f"{rec['desc']} :: lazy={f['lazy']} style={f['style']} sizes={f.get('sizes')} step={f['step']} {f['kind']}",
                          {"program": rec["prog"], "description": rec["desc"], **f})
    ctx.extra["programs"] = nprog
