"""C07 — constant folding is complete and every reported value is sound.

(1) State-machine correspondence: random histories over real `_CoreArray`s and real primitives vs the
Lean model `Ndx.Heap.run` (flags: reports a value / is a Constant), about which Props/C07.lean proves
soundness, completeness and taint for every history.  (2) Program level: random programs with the
inputs partitioned into data-holding and placeholder; completeness (all dependencies hold data =>
value present and the export is Constants/Identity only) and soundness (a reported value equals the
exported model's output under two different placeholder assignments) are checked directly."""
from __future__ import annotations

import itertools
import random

from .. import common, heapcorr, tables


def deps(prog):
    """Per step: set of input indices it transitively depends on."""
    out = []
    for st in prog["steps"]:
        d = set()
        for r in st["args"]:
            if r[0] == "in":
                d.add(r[1])
            elif r[0] == "st":
                d |= out[r[1]]
        out.append(d)
    return out


def worker(job):
    from .. import impl, progs
    import numpy as np
    ndx = impl.ndx
    seed, tier = job
    rng = random.Random(f"c07/{seed}")
    fam = None if seed % 3 else ["inplace", "inplace", "index", "binary", "where", "layout", "reduce", "nullable", "cast"]
    if seed % 3 == 1:
        # short chains of selections and reductions: value-dependent folds must not fire on placeholder-dependent operands
        fam = ["reduce", "reduce", "index", "index", "logical", "cmp", "unary", "layout", "sort", "creation"]
    prog = progs.generate(rng, seed=seed, families=fam, n_inputs=(2, 3),
                          sizes={"A": rng.choice([1, 2, 3]), "B": rng.choice([1, 2, 3])})
    if prog is None:
        return None
    sizes = prog["gen_sizes"]
    n = len(prog["inputs"])
    rec = {"prog": prog, "desc": progs.describe(prog), "cases": [], "fail": []}
    dep = deps(prog)
    subsets = [set(c) for k in range(0, n) for c in itertools.combinations(range(n), k)]  # proper subsets lazy
    if tier == "quick" and len(subsets) > 3:
        subsets = [set()] + rng.sample(subsets[1:], 2)
    for S in subsets:
        style = rng.choice(["static", "symbolic", "unknown"])
        case = {"lazy": sorted(S), "style": style}
        rec["cases"].append(case)
        try:
            vals, arrs, res = progs.trace(prog, S, style, sizes, seed)
        except Exception as e:
            rec["fail"].append({**case, "kind": "trace-raises", "step": None, "op": None,
                                "detail": f"{type(e).__name__}: {str(e)[:300]}"})
            continue
        reported = [r.to_numpy() for r in res]
        valued = []
        for j, (r, v) in enumerate(zip(res, reported)):
            needs = dep[j] & S
            if not needs:
                # completeness
                if v is None:
                    rec["fail"].append({**case, "kind": "no-value-although-all-inputs-hold-data", "step": j,
                                        "op": prog["steps"][j]["op"]})
                    continue
                try:
                    m = ndx.build({}, {"o": r})
                    ops = sorted({nd.op_type for nd in m.graph.node})
                except Exception as e:
                    rec["fail"].append({**case, "kind": "export-raises", "step": j, "op": prog["steps"][j]["op"],
                                        "detail": f"{type(e).__name__}: {str(e)[:200]}"})
                    continue
                if not set(ops) <= {"Constant", "Identity"}:
                    rec["fail"].append({**case, "kind": "compute-nodes-in-constant-export", "step": j,
                                        "op": prog["steps"][j]["op"], "detail": ops})
            if v is not None:
                valued.append(j)
                if tuple(v.shape) != tuple(r.shape):
                    rec["fail"].append({**case, "kind": "shape-differs-from-value", "step": j,
                                        "op": prog["steps"][j]["op"], "detail": [list(v.shape), list(r.shape)]})
        # soundness against the truth: a value reported for a step that (syntactically) depends on a placeholder
        # must be the step's eager result under *every* assignment of the placeholders
        if S and valued:
            try:
                truth, bound = {}, {}
                for label, sd in (("original", seed), ("other", seed + 7919)):
                    vv = progs.eager_inputs(prog, sizes, sd)
                    mixed = [vv[k] if k in S else vals[k] for k in range(n)]
                    rs = progs.execute(prog, [ndx.asarray(v) for v in mixed])
                    truth[label] = [r.to_numpy() for r in rs]
                    bound[label] = mixed
                for j in valued:
                    if not (dep[j] & S):
                        continue
                    for label in ("original", "other"):
                        if truth[label][j] is not None and not progs.same_value(truth[label][j], reported[j]):
                            extra = {}
                            if prog["steps"][j]["op"] == "where":
                                # which shortcut of `where` produced the value (the recorded equal-branches fold keeps
                                # broadcast(x, y) and drops a placeholder condition's extents)
                                extra["cause"] = progs.where_cause(prog, j, bound[label], truth[label])
                            rec["fail"].append({**case, **extra, "kind": "value-reported-for-placeholder-dependent-result", "step": j,
                                                "op": prog["steps"][j]["op"], "assignment": label,
                                                "reported": str(impl.canon(reported[j]))[:300],
                                                "eager": str(impl.canon(truth[label][j]))[:300]})
                            break
            except Exception:
                pass
        # soundness: reported values vs the exported model under two placeholder assignments
        if S and valued:
            other = progs.eager_inputs(prog, sizes, seed + 7919)
            try:
                sub = {**prog, "steps": prog["steps"]}
                ins = {f"i{k}": arrs[k] for k in sorted(S)}
                outs = {f"o{j}": res[j] for j in valued}
                model = ndx.build(ins, outs)
                sess = impl.session(model)
                names = [o.name for o in sess.get_outputs()]
                for assignment, vv in (("original", vals), ("other", other)):
                    feeds = {}
                    for k in sorted(S):
                        feeds.update(impl.feed(f"i{k}", vv[k], prog["inputs"][k]["dtype"]))
                    raw = dict(zip(names, sess.run(None, feeds)))
                    for j in valued:
                        got = impl.collect(raw, f"o{j}", res[j])
                        if not progs.same_value(got, reported[j]):
                            rec["fail"].append({**case, "kind": "reported-value-differs-from-model-output", "step": j,
                                                "op": prog["steps"][j]["op"], "assignment": assignment,
                                                "depends_on_placeholder": bool(dep[j] & S),
                                                "reported": str(impl.canon(reported[j]))[:300],
                                                "model": str(impl.canon(got))[:300]})
            except Exception as e:
                rec["fail"].append({**case, "kind": "export-or-run-raises", "step": None, "op": None,
                                    "detail": f"{type(e).__name__}: {str(e)[:300]}"})
    return rec


def run(ctx: common.Ctx):
    ctx.extra["rule"] = (
        "(1) random histories (4-14 steps over data / placeholder / 7 primitives / copy / _set) executed on "
        "real _CoreArrays and on the Lean state machine, flags compared cell by cell; (2) random programs with "
        "every proper subset of inputs lazy (3 in quick): completeness for steps whose dependencies all hold "
        "data, soundness of every reported value against the exported model under two placeholder "
        "assignments; distinct = distinct histories / (program, partition); non-trivial = mixes data and placeholders")
    # ---- (1) state machine correspondence ------------------------------------------------------
    rng = ctx.rng
    nh = 250 if ctx.tier == "quick" else 2500
    hist = [heapcorr.gen_history(rng, rng.randint(4, 14)) for _ in range(nh)]
    want = common.model(heapcorr.model_lines(hist, True))
    got = heapcorr.run_impl(hist)
    for h, w, g in zip(hist, want, got):
        mixed = any(s.startswith("p:") for s in h) and any(s == "d" for s in h)
        ctx.case(("hist", tuple(h)), mixed, {"history": h, "flags": g} if len(ctx.samples) < 3 else None)
        ctx.count("history-steps", len(h))
        if w != g:
            # which direction? a value reported where the model has none = unsound; the reverse = incomplete
            kind = "flags-differ"
            if w.startswith("ok") and g.startswith("ok"):
                wf, gf = w[3:].split(","), g[3:].split(",")
                for a, b in zip(wf, gf):
                    if a != b:
                        kind = "value-reported-for-placeholder-dependent-cell" if (b[0] == "v" and a[0] == "-") else (
                            "no-value-although-inputs-hold-data" if (b[0] == "-" and a[0] == "v") else "constant-flag-differs")
                        break
            ctx.violation(f"corearray-history/{kind}", f"history {' '.join(h)}: implementation {g}, model {w}",
                          {"history": h, "implementation": g, "model": w})
    ctx.extra["histories"] = nh
    # histories with value-dependent shortcuts (`ndx.where` on boolean scalars, data or placeholder): the `guarded` step of
    # Model/Heap.lean (simulation under neutrality: Lemmas/HeapSim.step_sim, Props/C01.refinement_partial)
    hs = [heapcorr.gen_history_shortcuts(rng, rng.randint(5, 14)) for _ in range(nh)]
    for h, w, g in zip(hs, common.model(heapcorr.model_lines(hs, True)), heapcorr.run_impl(hs)):
        if g == "skip":
            ctx.count("shortcut-history-skipped-equal-branches")
            continue
        ctx.case(("hist-shortcut", tuple(h)), any(s.startswith("gw") for s in h), {"history": h, "flags": g} if len(ctx.samples) < 5 else None)
        ctx.count("shortcut-history-steps", len(h))
        if w != g:
            ctx.violation("corearray-history/shortcut-flags-differ", f"history {' '.join(h)}: implementation {g}, model {w}",
                          {"history": h, "implementation": g, "model": w})
    # ---- (2) programs ------------------------------------------------------------------------------
    n = 300 if ctx.tier == "quick" else 3000
    recs = tables.pmap(worker, [(ctx.seed * 100003 + k, ctx.tier) for k in range(n)], chunk=4)
    from .c01 import report
    report(ctx, recs, "C07")
    wrapped_function_soundness(ctx)


def wrapped_function_soundness(ctx):
    """Values reported by `eager_propagate`-wrapped user functions on data (incl. functions that update an argument in
    place, idempotently or not) must be what the same function yields on placeholders through the exported model, and
    the export of the folded result must contain constants only."""
    import numpy as np
    from .. import impl
    from ndonnx._propagation import eager_propagate
    ndx = impl.ndx

    def f_acc(a, b):
        a += b
        return a * 1

    def f_scale(a, b):
        a[:2] = a[:2] * 3
        return a + b

    def f_nested(d, b):
        d["acc"] *= b
        return d["acc"] - 1

    def f_pure(a, b):
        return a * b + 1

    def f_idem(a, b):
        a[0] = 7
        return a + b

    cases = [("accumulate", f_acc, False), ("scale-prefix", f_scale, False), ("nested-dict", f_nested, True),
             ("pure", f_pure, False), ("idempotent", f_idem, False)]
    for dt in ("int64", "float64", "nint32", "float32"):
        npd = impl.np_dtype(dt)
        av = np.array([1, 2, 3], dtype=npd)
        bv = np.array([10, 20, 30], dtype=npd)
        if impl.is_nullable(dt):
            av = np.ma.masked_array(av, mask=[False, True, False])
            bv = np.ma.masked_array(bv, mask=[False, False, False])
        for name, fn, nested in cases:
            ident = ("wrapped", name, dt)
            ctx.case(ident, True, {"function": name, "dtype": dt} if len(ctx.samples) < 12 else None)
            ctx.count("wrapped-function")
            wrapped = eager_propagate(fn)
            try:
                # truth: the plain function traced on placeholders, run through the exported model
                pa, pb = ndx.array(shape=(3,), dtype=impl.dt(dt)), ndx.array(shape=(3,), dtype=impl.dt(dt))
                arg = {"acc": pa.copy()} if nested else pa.copy()      # the function may update its argument in place
                lazy = fn(arg, pb)
                inputs = {"a": pa, "b": pb}
                feeds = {**impl.feed("a", av, dt), **impl.feed("b", bv, dt)}
                truth = impl.run_model(ndx.build(inputs, {"o": lazy}), feeds, {"o": lazy})["o"]
                ea, eb = ndx.asarray(av.copy()), ndx.asarray(bv.copy())
                earg = {"acc": ea} if nested else ea
                out = wrapped(earg, eb)
                rep = out.to_numpy()
            except Exception as e:
                ctx.count("wrapped-function-skipped:" + type(e).__name__)
                continue
            if rep is None:
                ctx.violation(f"eager_propagate-wrapped/{name}/no-value-although-inputs-hold-data",
                              f"{name}({dt}): all arguments hold data but the result reports no value", {"function": name, "dtype": dt})
                continue
            if not (impl.canon(rep)[1:] == impl.canon(truth)[1:]):
                ctx.violation(f"eager_propagate-wrapped/{name}/reported-value-unsound",
                              f"{name}({dt}): reported {impl.canon(rep)} but the function traced on placeholders computes {impl.canon(truth)}",
                              {"function": name, "dtype": dt, "reported": str(impl.canon(rep)), "model": str(impl.canon(truth))})
            m = ndx.build({}, {"o": out})
            ops = sorted({n.op_type for n in m.graph.node} - {"Constant", "Identity"})
            if ops:
                ctx.violation(f"eager_propagate-wrapped/{name}/folded-export-has-compute-nodes",
                              f"{name}({dt}): export of the folded result contains {ops}", {"function": name, "dtype": dt, "ops": ops})
