"""C12 — sorting, searching and set functions satisfy their defining invariants.

Sweep vs NumPy and vs the defining invariants: sort (ordered permutation along the axis), argsort
(int64 permutation that sorts; stable), unique_all/counts/inverse/values (sorted distinct values,
first-occurrence indices, inverse reconstructs, counts sum to size), searchsorted (both sides, with a
sorter), nonzero (row-major coordinates), where (three-way broadcasting); NaN-free inputs of every
numeric dtype incl. uint64 extremes, duplicates, lengths 1..300 (thorough: ~70 000), any axis, both
directions; eager and traced.  Lean: Props/C12.lean (order-embedding of the routing casts, counting
specification of searchsorted, where broadcasting shape)."""
from __future__ import annotations

import random

import numpy as np

from .. import common, impl, tables

NUM = impl.INTS + impl.FLOATS


def values(rng, dtype, shape, dup=True, extremes=False):
    size = int(np.prod(shape)) if shape else 1
    if dtype in impl.FLOATS:
        pool = np.array([-2.5, -1.0, -0.5, 0.0, 0.5, 1.0, 1.5, 2.0, 3.25, 7.0, -7.5, 100.0])
        v = pool[rng.integers(0, len(pool), size=size)] if dup else rng.permutation(size * 2)[:size] * 0.5 - size / 2
        return np.asarray(v, dtype=dtype).reshape(shape)
    ii = np.iinfo(dtype)
    if extremes:
        pool = np.array([ii.min, ii.min + 1, ii.max, ii.max - 1, 0, 1, ii.max // 2, ii.max // 2 + 1], dtype=object)
        return np.array(pool[rng.integers(0, len(pool), size=size)], dtype=object).astype(dtype).reshape(shape)
    lo, hi = (0, 9) if ii.min == 0 else (-4, 6)
    if not dup and hi - lo + 1 < size:
        lo, hi = max(ii.min, -size), min(ii.max, size)
    v = rng.integers(lo, hi, size=size) if dup else rng.permutation(np.arange(lo, lo + max(size, 1)))[:size]
    return np.asarray(v).astype(dtype).reshape(shape)


def worker(job):
    from .. import sweep
    ndx = impl.ndx
    fn, dtype, seed, big = job
    rng = np.random.default_rng(seed)
    prng = random.Random(seed)
    rec = {"fn": fn, "dtype": dtype, "fail": []}
    r = prng.choice([1, 1, 2, 3])
    if big == -1:
        shape = (6,)        # directed: type extremes (min, min+1, max, ...) in both sort directions
    elif big:
        shape = (big,)
    else:
        shape = tuple(prng.choice([1, 2, 3, 4, 7]) for _ in range(r))
        if prng.random() < 0.2:
            shape = (prng.choice([1, 17, 130, 300]),)
    extremes = big == -1 or prng.random() < (0.5 if dtype == "uint64" else 0.4)
    x = values(rng, dtype, shape, dup=prng.random() < 0.7, extremes=extremes)
    rec["shape"] = list(shape); rec["extremes"] = extremes
    ax = prng.randrange(-len(shape), len(shape))
    desc = (seed % 2 == 0) if big == -1 else prng.random() < 0.4
    params = {}

    def check(mode, ok, kind, detail):
        if not ok:
            rec["fail"].append((mode, kind, str(detail)[:300]))

    if fn in ("sort", "argsort"):
        params = {"axis": ax, "descending": desc}
        res = sweep.run_case(lambda a: getattr(ndx, fn)(a, axis=ax, descending=desc), [x], [dtype])
        for mode, got in res.items():
            if sweep.is_error(got):
                check(mode, False, "raises", got[1]); continue
            if fn == "sort":
                ref = np.sort(x, axis=ax)
                if desc:
                    ref = np.flip(ref, axis=ax)
                check(mode, got.dtype == x.dtype, "dtype", got.dtype)
                check(mode, got.shape == ref.shape and np.array_equal(got, ref), "not-the-sorted-array", (got.tolist(), ref.tolist()))
            else:
                check(mode, str(got.dtype) == "int64", "index-dtype", got.dtype)
                if got.shape != x.shape:
                    check(mode, False, "shape", got.shape); continue
                n = x.shape[ax]
                srt = np.sort(got, axis=ax)
                perm_ok = np.array_equal(srt, np.broadcast_to(np.arange(n).reshape([-1 if i == ax % x.ndim else 1 for i in range(x.ndim)]), x.shape))
                check(mode, perm_ok, "not-a-permutation", got.tolist())
                if perm_ok:
                    taken = np.take_along_axis(x, got, axis=ax)
                    ref = np.sort(x, axis=ax)
                    if desc:
                        ref = np.flip(ref, axis=ax)
                    check(mode, np.array_equal(taken, ref), "does-not-sort", (taken.tolist(), ref.tolist()))
                    # stability: ties in original order (ascending) / NumPy's descending stable order
                    if not desc:
                        check(mode, np.array_equal(got, np.argsort(x, axis=ax, kind="stable")), "not-stable", got.tolist())
    elif fn.startswith("unique"):
        res = sweep.run_case(lambda a: getattr(ndx, fn)(a), [x], [dtype])
        uv, ui, uinv, uc = np.unique(x, return_index=True, return_inverse=True, return_counts=True)
        for mode, got in res.items():
            if sweep.is_error(got):
                check(mode, False, "raises", got[1]); continue
            parts = {"unique_values": {"values": got} if not isinstance(got, list) else None}
            if fn == "unique_values":
                d = {"values": got}
            elif fn == "unique_counts":
                d = dict(zip(["values", "counts"], got))
            elif fn == "unique_inverse":
                d = dict(zip(["values", "inverse_indices"], got))
            else:
                d = dict(zip(["values", "indices", "inverse_indices", "counts"], got))
            v = d["values"]
            check(mode, v.dtype == x.dtype, "values-dtype", v.dtype)
            check(mode, np.array_equal(np.asarray(v).astype(object), uv.astype(object)), "values", (np.asarray(v).tolist(), uv.tolist()))
            if "indices" in d:
                check(mode, np.array_equal(d["indices"], ui), "first-occurrence-indices", (d["indices"].tolist(), ui.tolist()))
            if "inverse_indices" in d:
                inv = d["inverse_indices"]
                check(mode, inv.shape == x.shape and np.array_equal(np.asarray(v)[inv].astype(object) if inv.size else x.astype(object), x.astype(object)),
                      "inverse-does-not-reconstruct", (inv.shape, x.shape))
            if "counts" in d:
                check(mode, np.array_equal(d["counts"], uc) and int(np.sum(d["counts"])) == x.size, "counts", (d["counts"].tolist(), uc.tolist()))
    elif fn == "searchsorted":
        m, k = prng.choice([1, 2, 3, 5, 40]), prng.choice([1, 2, 4, 30])
        x1 = np.sort(values(rng, dtype, (m,), dup=prng.random() < 0.6))
        x2 = values(rng, dtype, (k,), dup=True)
        side = prng.choice(["left", "right"])
        use_sorter = prng.random() < 0.3
        params = {"side": side, "sorter": use_sorter, "m": m, "k": k}
        modes = ("eager", "traced") if seed % 4 == 0 else ("traced",)
        if use_sorter:
            perm = rng.permutation(m)
            inv = np.argsort(perm)
            x1u = x1[perm]
            res = sweep.run_case(lambda a, b, s: ndx.searchsorted(a, b, side=side, sorter=s), [x1u, x2, inv.astype(np.int64)], [dtype, dtype, "int64"], modes=modes)
        else:
            res = sweep.run_case(lambda a, b: ndx.searchsorted(a, b, side=side), [x1, x2], [dtype, dtype], modes=modes)
        ref = np.searchsorted(x1, x2, side=side)
        rec["inputs"] = (x1.tolist(), x2.tolist())
        for mode, got in res.items():
            if sweep.is_error(got):
                check(mode, False, "raises", got[1]); continue
            check(mode, got.shape == ref.shape and np.array_equal(got, ref), "insertion-points", (got.tolist(), ref.tolist(), x1.tolist(), x2.tolist(), side))
    elif fn == "nonzero":
        x = np.where(rng.random(size=shape) < 0.5, x, np.zeros_like(x))
        res = sweep.run_case(lambda a: list(ndx.nonzero(a)), [x], [dtype])
        ref = np.nonzero(x)
        for mode, got in res.items():
            if sweep.is_error(got):
                check(mode, False, "raises", got[1]); continue
            ok = len(got) == len(ref) and all(np.array_equal(g, r_) and str(g.dtype) == "int64" for g, r_ in zip(got, ref))
            check(mode, ok, "coordinates", ([g.tolist() for g in got], [r_.tolist() for r_ in ref]))
    elif fn == "where":
        tgt = tuple(prng.choice([1, 2, 3]) for _ in range(prng.randrange(0, 4)))
        def sub():
            k = prng.randrange(0, len(tgt) + 1)
            return tuple((1 if prng.random() < 0.4 else t) for t in tgt[len(tgt) - k:])
        sc, sx, sy = sub(), sub(), sub()
        c = rng.integers(0, 2, size=int(np.prod(sc)) if sc else 1).astype(bool).reshape(sc)
        xv, yv = values(rng, dtype, sx), values(rng, dtype, sy)
        if prng.random() < 0.3:
            yv = xv.copy() if xv.shape == yv.shape else yv      # equal branches (value-dependent shortcut)
        params = {"shapes": [list(sc), list(sx), list(sy)]}
        res = sweep.run_case(lambda a, b, d: ndx.where(a, b, d), [c, xv, yv], ["bool", dtype, dtype])
        ref = np.where(c, xv, yv)
        for mode, got in res.items():
            if sweep.is_error(got):
                check(mode, False, "raises", got[1]); continue
            check(mode, got.shape == ref.shape, "broadcast-shape", (got.shape, ref.shape))
            if got.shape == ref.shape:
                check(mode, np.array_equal(got, ref) and got.dtype == ref.dtype, "selection", (got.tolist(), ref.tolist()))
    rec["params"] = params
    return rec


def run(ctx: common.Ctx):
    ctx.extra["rule"] = (
        "sort, argsort, unique_{all,counts,inverse,values}, searchsorted (both sides, sorter), nonzero, where x 10 numeric "
        "dtypes x random shapes (ranks 1-3, lengths up to 300; thorough adds length 70 000) x duplicates / distinct / "
        "type extremes (uint64 >= 2**63) x axis x direction; eager and traced; NumPy + defining invariants; "
        "distinct = distinct (function, dtype, seed); non-trivial = more than one element")
    quick = ctx.tier == "quick"
    fns = ["sort", "argsort", "unique_all", "unique_counts", "unique_inverse", "unique_values", "searchsorted", "nonzero", "where"]
    weight = {"searchsorted": 4, "sort": 3, "argsort": 4, "where": 2}
    import zlib
    jobs = [(fn, d, zlib.crc32(f"{fn}/{d}/{ctx.seed}/{k}".encode()), 0) for fn in fns for d in NUM
            for k in range((4 if quick else 60) * weight.get(fn, 1))]
    jobs += [(fn, d, k, -1) for fn in ("sort", "argsort") for d in impl.INTS for k in range(4)]
    if not quick:
        jobs += [(fn, d, 5, 70000) for fn in ("sort", "argsort", "unique_all") for d in ("int8", "uint16", "float32", "int64")]
    else:
        jobs += [("argsort", "int8", 5, 300), ("argsort", "uint8", 6, 300), ("sort", "int16", 7, 300)]
    res = tables.pmap(worker, jobs, chunk=6)
    for job, r in tables.pairs(ctx, jobs, res):
        if isinstance(r, tables.Crashed):
            ctx.violation(f"{job[0]}/{job[1]}/interpreter-crash", f"{job}: worker died", {"job": repr(job)})
            continue
        ctx.case(job, True, {k: r.get(k) for k in ("fn", "dtype", "shape", "params")} if len(ctx.samples) < 8 else None)
        ctx.count("fn:" + r["fn"])
        for mode, kind, detail in r["fail"]:
            cls = "extremes" if r.get("extremes") else "ordinary"
            ctx.violation(f"{r['fn']}/{r['dtype']}/{cls}/{kind}",
                          f"{r['fn']}({r['dtype']}{r.get('shape')}, {r.get('params')}) {mode}: {kind}: {detail}",
                          {**{k: r.get(k) for k in ("fn", "dtype", "shape", "params", "inputs")}, "mode": mode, "kind": kind, "detail": detail})
    # algorithm-level tie: Model/Search.lean (theorem Ndx.C12.searchsortedImpl_eq_count / searchsorted_correct)
    from .. import searchtie
    searchtie.run(ctx, 96 if quick else 800)
    # graph-level tie of nonzero: coordinate grid + Compress + GatherElements (Model/TGraphScatter.nonzeroGraph; Props/C12Nonzero.lean)
    from .. import scattertie
    scattertie.run(ctx, 80 if quick else 800, label="nonzero", kinds=("nonzero", "where"))
