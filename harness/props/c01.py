"""C01 — an exported ONNX model computes exactly what eager evaluation computes.

Correspondence (tie C): random multi-step programs over the public API (functions, operators,
indexing, in-place updates on copies; core, nullable and string dtypes; ranks 0..3, extents incl. 0
and 1, broadcasting pairs) are evaluated eagerly and traced with subsets of the inputs as placeholders
(static / symbolic / unknown dims), exported, run through onnxruntime and compared step by step.
The Lean side (Props/C01.lean) proves the simulation invariant on the propagation model."""
from __future__ import annotations

import itertools
import random

from .. import common, tables


def worker(job):
    """One program: eager vs traced for a list of (lazy subset, style).  Returns a record."""
    from .. import impl, progs
    import numpy as np
    seed, tier, families, dtypes = job
    rng = random.Random(f"c01/{seed}")
    if families is None and seed % 4 == 1:
        # guard-directed programs: boolean inputs of several ranks meeting single-element constants
        families = ["shortcut", "shortcut", "shortcut", "logical", "where", "cmp", "index", "layout"]
        dtypes = ["bool", "bool", "nbool", "int32", "float64", "nint64", "utf8"]
    preset, steps = None, (1, 6)
    if families is None and seed % 8 == 3:
        preset, families, steps = progs.struct_broadcast_preset(rng)
    prog = progs.generate(rng, seed=seed, families=families, dtypes=dtypes, preset_inputs=preset, n_steps=steps,
                          erase_static=(preset is None and seed % 8 == 5),
                          sizes={"A": rng.choice([0, 1, 2, 3]), "B": rng.choice([1, 2, 3])})
    if prog is None:
        return None
    sizes = prog["gen_sizes"]
    rec = {"prog": prog, "desc": progs.describe(prog), "cases": [], "fail": []}
    special = seed % 5 == 0
    try:
        vals, _, res = progs.run_eager(prog, sizes, seed, special)
        evals = [r.to_numpy() for r in res]
    except Exception as e:  # generation ran with special=False; special values may be inadmissible
        special = False
        vals, _, res = progs.run_eager(prog, sizes, seed, special)
        evals = [r.to_numpy() for r in res]
    n = len(prog["inputs"])
    subsets = [set(c) for k in range(1, n + 1) for c in itertools.combinations(range(n), k)]
    if tier == "quick" and len(subsets) > 3:
        subsets = rng.sample(subsets[:-1], 2) + [subsets[-1]]
    for S in subsets:
        style = rng.choice(["static", "symbolic", "unknown", "mixed"])
        case = {"lazy": sorted(S), "style": style}
        rec["cases"].append(case)
        try:
            _, arrs, lres = progs.trace(prog, S, style, sizes, seed, special)
        except Exception as e:
            # a shape error at trace time downstream of the recorded `where` equal-branches fold (the fold drops the
            # condition's extents, so a later shape-checked step no longer fits): same defect, other symptom
            culprit = None
            for jw, stw in enumerate(prog["steps"]):
                if stw["op"] == "where" and evals[jw] is not None and progs.where_cause(prog, jw, vals, evals) == "equal-branches":
                    try:
                        xs = [np.shape(np.ma.getdata(evals[r[1]] if r[0] == "st" else (vals[r[1]] if r[0] == "in" else np.asarray(r[1] if r[0] == "py" else np.array(r[3]).reshape(r[2])))))
                              for r in stw["args"][1:]]
                        if tuple(np.broadcast_shapes(*xs)) != tuple(np.shape(evals[jw])):
                            culprit = jw
                            break
                    except Exception:
                        pass
            if culprit is not None:
                rec["fail"].append({**case, "kind": "trace-raises-downstream", "step": culprit, "op": "where", "cause": "equal-branches",
                                    "detail": f"{type(e).__name__}: {str(e)[:300]}"})
            else:
                rec["fail"].append({**case, "kind": "trace-raises", "step": None,
                                    "detail": f"{type(e).__name__}: {str(e)[:300]}"})
            continue
        try:
            model, outs = progs.build_and_run(prog, S, arrs, lres, [vals])
        except Exception as e:
            # localise: smallest prefix that fails
            bad = None
            for j in range(1, len(lres) + 1):
                try:
                    progs.build_and_run({**prog, "steps": prog["steps"][:j]}, S, arrs, lres[:j], [vals])
                except Exception as e2:
                    bad = (j - 1, e2)
                    break
            j, e2 = bad if bad else (None, e)
            # the exported model, or onnxruntime's graph optimiser?  (same model, optimisations disabled, values compared)
            suffix = ""
            try:
                _, outs0 = progs.build_and_run(prog, S, arrs, lres, [vals], optimise=False)
                if all(ev is not None and progs.same_value(outs0[0][q], ev) for q, ev in enumerate(evals)):
                    suffix = "-only-with-onnxruntime-graph-optimizations"
            except Exception:
                pass
            rec["fail"].append({**case, "kind": "export-or-run-raises" + suffix, "step": j,
                                "op": prog["steps"][j]["op"] if j is not None else None,
                                "detail": f"{type(e2).__name__}: {str(e2)[:300]}"})
            continue
        for j, ev in enumerate(evals):
            got = outs[0][j]
            if ev is None:
                rec["fail"].append({**case, "kind": "eager-has-no-value", "step": j, "op": prog["steps"][j]["op"]})
                break
            if not progs.same_value(got, ev):
                close = progs.same_value(got, ev, ulps=4)
                # the exported model, or onnxruntime's graph optimiser?  (same model, optimisations disabled)
                suffix = ""
                if not close:
                    try:
                        _, outs0 = progs.build_and_run(prog, S, arrs, lres, [vals], optimise=False)
                        if all(e2 is not None and progs.same_value(outs0[0][q], e2) for q, e2 in enumerate(evals)):
                            suffix = "-only-with-onnxruntime-graph-optimizations"
                    except Exception:
                        pass
                rec["fail"].append({**case, "kind": "ulp-diff" if close else progs.diff_kind(got, ev) + suffix, "step": j,
                                    "cause": (progs.where_cause(prog, j, vals, evals) if prog["steps"][j]["op"] == "where"
                                              else progs.step_cause(prog, j, S)),
                                    "op": prog["steps"][j]["op"],
                                    "eager": str(impl.canon(ev))[:400], "traced": str(impl.canon(got))[:400]})
                break
    return rec


def run(ctx: common.Ctx):
    ctx.extra["rule"] = (
        "random programs (1-6 steps, 1-3 inputs + helper mask, 20 dtypes incl. nullable/string, ranks 0-3, "
        "extents 0-3, broadcasting pairs; every 5th with NaN/inf/-0.0) generated by executing them eagerly; "
        "each is traced with subsets of its inputs as placeholders (all subsets in thorough, 3 in quick) declared "
        "static/symbolic/unknown/mixed, exported, run in onnxruntime and compared per step with the eager "
        "values (dtype, shape, mask, values exactly; NaN==NaN; payloads under nulls ignored); distinct = "
        "distinct (program, lazy subset, style); non-trivial = at least one placeholder feeds a compute step")
    n = 600 if ctx.tier == "quick" else 4000
    jobs = [(ctx.seed * 100003 + k, ctx.tier, None, None) for k in range(n)]
    recs = tables.pmap(worker, jobs, chunk=4)
    report(ctx, recs, "C01")
    guard_model_correspondence(ctx)
    # tie D on compositions: integer / boolean programs whose exported graph stays inside the operator set of
    # Model/TGraph.lean are parsed by the Lean driver and evaluated on the same inputs as onnxruntime
    from .. import tgraph
    tgraph.run_programs(ctx, 160 if ctx.tier == "quick" else 2000)


def guard_model_correspondence(ctx):
    """The Lean broadcasting model and the shortcut guard vs NumPy and the implementation's own guard."""
    import numpy as np
    try:
        from ndonnx._core._shapeimpl import _known_to_broadcast_into as impl_guard
    except ImportError:
        impl_guard = None
    rng = ctx.rng
    pairs = []
    for _ in range(400):
        t = [rng.choice([0, 1, 2, 3, 5]) for _ in range(rng.randrange(0, 4))]
        k = rng.randrange(0, len(t) + 2)
        s = [(1 if rng.random() < 0.4 else (d if rng.random() < 0.8 else rng.choice([0, 2, 3]))) for d in ([rng.choice([1, 2])] * max(0, k - len(t)) + t[max(0, len(t) - k):])]
        pairs.append((s, t))
    fmt = lambda x: ",".join(map(str, x)) or "-"
    ans = common.model([f"bshape {fmt(s)} {fmt(t)}" for s, t in pairs])
    for (s, t), a in zip(pairs, ans):
        ctx.case(("bshape", tuple(s), tuple(t)), True)
        try:
            want = fmt(np.broadcast_shapes(tuple(s), tuple(t)))
        except ValueError:
            want = "err"
        got, into, single = a.split()
        if got != want:
            ctx.corr_broken("lean-broadcast-model-vs-numpy", {"s": s, "t": t, "model": got, "numpy": want})
        if impl_guard is not None and (into == "into=true") != bool(impl_guard(tuple(s), tuple(t))):
            ctx.corr_broken("shortcut-guard-model-vs-implementation", {"s": s, "t": t, "model": into, "implementation": bool(impl_guard(tuple(s), tuple(t)))})
        if into == "into=true" and want != fmt(t):
            ctx.corr_broken("guard-soundness", {"s": s, "t": t})


def step_key(f):
    if f.get("cause"):
        return f"{f.get('op') or 'program'}/{f['cause']}/{f['kind']}"
    return f"{f.get('op') or 'program'}/{f['kind']}"


def report(ctx, recs, prop):
    nprog = 0
    for rec in recs:
        if rec is None or isinstance(rec, tables.WorkerError):
            if rec is not None:
                ctx.count("harness-exception-skipped")
            continue
        if isinstance(rec, tables.Crashed):
            ctx.violation("program/interpreter-crashed", f"worker process died or hung on job {rec.item!r}: {rec.why}",
                          {"job": repr(rec.item), "why": rec.why})
            continue
        nprog += 1
        for st in rec["prog"]["steps"]:
            ctx.count("op:" + st["op"])
        for c in rec["cases"]:
            ctx.case((rec["desc"], tuple(c["lazy"]), c["style"]), True,
                     {"program": rec["desc"], **c} if len(ctx.samples) < 6 else None)
            ctx.count("style:" + c["style"])
            ctx.count(f"lazy-inputs:{len(c['lazy'])}")
        for f in rec["fail"]:
            if f["kind"] == "ulp-diff":
                ctx.count("float-results-differ-within-4ulp")
                continue
            ctx.violation(step_key(f),
                          f"{rec['desc']} :: lazy={f['lazy']} style={f['style']} step={f['step']} {f['kind']}",
                          {"program": rec["prog"], "description": rec["desc"], **f})
    ctx.extra["programs"] = nprog
