"""Replayable witnesses of the known findings (known_findings.txt).  Each returns True when the
defect still reproduces on /repo's current tree.  A finding whose witness no longer fails prints
nothing; a `fixed:` entry has no witness and suppresses nothing."""
from __future__ import annotations

import numpy as np

from .impl import ndx


def _raises(fn, *classes):
    try:
        fn()
    except classes or Exception:
        return True
    return False


def _ne(a, b):
    a, b = np.asarray(a), np.asarray(b)
    return a.shape != b.shape or not np.array_equal(a, b)


W: dict[str, dict] = {}


def witness(prop, key):
    def deco(fn):
        W.setdefault(prop, {})[key] = fn
        return fn
    return deco


# ---------------------------------------------------------------- C08
@witness("C08", "getitem/mask-array/*/zero-extent-raises")
def _():
    x = np.zeros((2, 2, 0))
    m = np.array([[True, False], [False, True]])
    return _raises(lambda: ndx.asarray(x)[ndx.asarray(m)])


@witness("C08", "getitem/int-array/string-nd/wrong-values")
def _():
    x = np.array([["a", "b"], ["c", "d"]])
    return _ne(ndx.asarray(x)[ndx.asarray(np.array([1, 0]))].to_numpy(), x[[1, 0]])


# ---------------------------------------------------------------- C01 / C06
def _where_symbolic_fold():
    from . import impl
    c = ndx.array(shape=("N",), dtype=ndx.bool)
    out = ndx.where(c, ndx.asarray(np.array([1])), ndx.asarray(np.array([1])))
    m = ndx.build({"c": c}, {"o": out})
    got = impl.run_model(m, {"c": np.array([True, False, True])}, {"o": out})["o"]
    return got.shape != (3,)


@witness("C01", "where/equal-branches/shape-differs")
def _():
    return _where_symbolic_fold()


@witness("C06", "where/equal-branches/shape-differs")
def _():
    return _where_symbolic_fold()





def _argmin_nullable_mask_unreduced():
    from . import impl
    x = ndx.array(shape=("N",), dtype=ndx.nint32)
    out = ndx.argmin(x, axis=0)
    m = ndx.build({"x": x}, {"o": out})
    sess = impl.session(m)
    res = dict(zip([o.name for o in sess.get_outputs()],
                   sess.run(None, impl.feed("x", np.ma.masked_array(np.array([3, 1, 2], dtype=np.int32), mask=[False, False, True]), "nint32"))))
    return res["o_null"].shape != res["o_values"].shape


for _p in ("C01", "C06", "C16"):
    witness(_p, "argm??/*/null-field-shape-differs-from-values")(_argmin_nullable_mask_unreduced)




@witness("C08", "getitem/basic-*/string-nd/*")
def _():
    x = np.array([["a", "b", "c"], ["d", "e", "f"]])
    return _ne(ndx.asarray(x)[1, ...].to_numpy(), x[1])


@witness("C20", "iter/eager/string-rank2*/wrong-items")
def _():
    x = np.array([["a", "b", "c"], ["d", "e", "f"]])
    return any(_ne(it.to_numpy(), x[i]) for i, it in enumerate(ndx.asarray(x)))


def replay_all(ctx):  # noqa: E302
    for key, fn in W.get(ctx.prop, {}).items():
        try:
            still = bool(fn())
        except Exception:
            still = True
        ctx.reproduce_known(key, still)


# ---------------------------------------------------------------- C10: onnxruntime int64 reduction kernels
@witness("C10", "sum/*/large-magnitudes/exported-model-differs-from-numpy")
def _():
    a = np.array([9007199254740993, 1], dtype=np.int64)
    return _ne(ndx.sum(ndx.asarray(a)).to_numpy(), a.sum())


@witness("C10", "prod/*/large-magnitudes/exported-model-differs-from-numpy")
def _():
    a = np.array([2 ** 40, 2 ** 30], dtype=np.int64)
    with np.errstate(over="ignore"):
        return _ne(ndx.prod(ndx.asarray(a)).to_numpy(), a.prod())


@witness("C10", "max/*/large-magnitudes/exported-model-differs-from-numpy")
def _():
    a = np.array([[4294967295, 0, 5], [4294967295, 0, 0]], dtype=np.int64)
    return _ne(ndx.max(ndx.asarray(a)).to_numpy(), a.max())


@witness("C10", "min/*/large-magnitudes/exported-model-differs-from-numpy")
def _():
    a = np.array([[4294967295, 0, 5], [4294967295, 0, 0]], dtype=np.int64)
    return _ne(ndx.min(ndx.asarray(a)).to_numpy(), a.min())


# ---------------------------------------------------------------- C01 / C06: onnxruntime's graph optimiser removes Add(x, 0)
def _add_zero_negative_zero():
    from . import impl
    x = ndx.array(shape=("N",), dtype=ndx.float32)
    y = x + 0
    got = impl.run_model(ndx.build({"x": x}, {"y": y}), {"x": np.array([-0.0], dtype=np.float32)}, {"y": y})["y"]
    return bool(np.signbit(got[0]))


@witness("C01", "add/*/only-sign-of-zero-differs")
def _():
    return _add_zero_negative_zero()


@witness("C06", "add/*/only-sign-of-zero-differs")
def _():
    return _add_zero_negative_zero()


# ---------------------------------------------------------------- C15: onnxruntime's graph optimiser removes Expand(Reshape(x, Shape(x)), [0])
@witness("C15", "broadcast_to*/*/*-only-with-onnxruntime-graph-optimizations")
def _():
    from . import impl
    a = ndx.array(shape=("B",), dtype=ndx.uint32)
    y = ndx.broadcast_to(ndx.roll(a, -7, axis=-1), (0,))
    model = ndx.build({"a": a}, {"y": y})
    feeds = {"a": np.array([5], dtype=np.uint32)}
    with_opt = impl.session(model).run(None, feeds)[0]
    without = impl.session(model, optimise=False).run(None, feeds)[0]
    return y.shape == (0,) and without.shape == (0,) and with_opt.shape != (0,)


# ---------------------------------------------------------------- C01: the same onnxruntime optimiser defect reached through an assignment
@witness("C01", "setitem/export-or-run-raises-only-with-onnxruntime-graph-optimizations")
def _():
    from . import impl
    i0 = ndx.array(shape=(1,), dtype=ndx.int32)
    s0 = ndx.reshape(i0, (1, -1))
    y = s0.copy()
    y[::2, 1:] = s0          # an empty selection: the (1, 1) update is expanded to shape (1, 0)
    model = ndx.build({"i0": i0}, {"y": y})
    feeds = {"i0": np.array([5], dtype=np.int32)}
    ok_without = impl.session(model, optimise=False).run(None, feeds)[0].tolist() == [[5]]
    return ok_without and _raises(lambda: impl.session(model).run(None, feeds))


@witness("C01", "where/equal-branches/trace-raises-downstream")
def _():
    x = ndx.asarray(np.array([[True], [False], [True]]))
    c = ndx.array(shape=("B",), dtype=ndx.bool)
    z = ndx.asarray(np.zeros((0, 3), dtype=bool))
    eager_ok = ndx.concat([ndx.where(ndx.asarray(np.array([True, False, True])), x, x), z], axis=0).shape == (3, 3)
    return eager_ok and _raises(lambda: ndx.concat([ndx.where(c, x, x), z], axis=0))


@witness("C07", "where/equal-branches/value-reported-for-placeholder-dependent-result")
def _():
    x = ndx.asarray(np.array([7], dtype=np.uint32))
    c = ndx.array(shape=(None,), dtype=ndx.bool)
    r = ndx.where(c, x, x)
    v = r.to_numpy()
    truth = ndx.where(ndx.asarray(np.array([True, False])), x, x).to_numpy()
    return v is not None and tuple(v.shape) != tuple(truth.shape)


@witness("C16", "broadcast_to*/*/*-only-with-onnxruntime-graph-optimizations")
def _():
    return W["C15"]["broadcast_to*/*/*-only-with-onnxruntime-graph-optimizations"]()


@witness("C03", "clip-pyscalar*/*/dtype-*")
def _():
    x = ndx.asarray(np.array([0.5, 1.5], dtype=np.float32))
    return ndx.clip(x, min=1.0, max=2.0).dtype != ndx.float32


@witness("C10", "argext/uint64-beyond-int64/exported-model-differs-from-numpy")
def _():
    a = np.array([2, 2 ** 64 - 1], dtype=np.uint64)
    return int(ndx.argmax(ndx.asarray(a)).to_numpy()) != int(np.argmax(a))


@witness("C01", "broadcast_to*/*/*-only-with-onnxruntime-graph-optimizations")
def _():
    return W["C15"]["broadcast_to*/*/*-only-with-onnxruntime-graph-optimizations"]()


@witness("C06", "broadcast_to*/*/*-only-with-onnxruntime-graph-optimizations")
def _():
    return W["C15"]["broadcast_to*/*/*-only-with-onnxruntime-graph-optimizations"]()
