"""Tie of Model/Search.lean (`Ndx.Search.searchsortedImpl`, theorem `Ndx.C12.searchsortedImpl_eq_count`) to NumPy and
to the implementation: the ranks-and-cumulative-sum algorithm on integer data, both sides."""
from __future__ import annotations

import random

import numpy as np

from . import common, impl, tables


def worker(job):
    ndx = impl.ndx
    seed, = job
    rng = random.Random(f"searchtie/{seed}")
    m, k = rng.choice([0, 1, 2, 3, 5, 8]), rng.choice([1, 2, 3, 6])
    lo, hi = rng.choice([(-3, 4), (0, 3), (-50, 50)])
    x1 = sorted(rng.randint(lo, hi) for _ in range(m))
    x2 = [rng.randint(lo - 1, hi + 1) for _ in range(k)]
    side = rng.choice(["left", "right"])
    out = {"x1": x1, "x2": x2, "side": side,
           "numpy": np.searchsorted(np.array(x1, dtype=np.int64), np.array(x2, dtype=np.int64), side=side).tolist()}
    try:
        r = ndx.searchsorted(ndx.asarray(np.array(x1, dtype=np.int64)), ndx.asarray(np.array(x2, dtype=np.int64)), side=side)
        out["eager"] = r.to_numpy().tolist()
    except Exception as e:
        out["eager"] = f"raises:{type(e).__name__}"
    return out


def run(ctx, n):
    seeds = [(ctx.seed * 4441 + k,) for k in range(n)]
    res = [r for _, r in tables.pairs(ctx, seeds, tables.pmap(worker, seeds, chunk=4)) if not isinstance(r, tables.Crashed)]
    fl = lambda s: ",".join(map(str, s)) or "-"
    lines = [f"searchsorted {fl(r['x1'])} {fl(r['x2'])} {r['side']}" for r in res]
    outs = common.model(lines)
    ok = 0
    for r, line, m in zip(res, lines, outs):
        ctx.case(("searchsorted-model", line), True)
        if m != fl(r["numpy"]):
            ctx.corr_broken("lean-searchsorted-algorithm-vs-numpy", {"line": line, "model": m, "numpy": r["numpy"]})
            continue
        ok += 1
        if isinstance(r["eager"], str):
            ctx.violation("searchsorted/int64/model-tie/raises", f"{line}: {r['eager']}", {"line": line, **r})
        elif r["eager"] != r["numpy"]:
            ctx.violation("searchsorted/int64/model-tie/values", f"{line}: implementation {r['eager']}, Lean algorithm model and NumPy {r['numpy']}",
                          {"line": line, **r, "theorem": "Ndx.C12.searchsortedImpl_eq_count"})
    ctx.count("searchsorted-model-tie", ok)
