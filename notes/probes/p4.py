import warnings; warnings.filterwarnings("ignore")
import numpy as np, ndonnx as ndx, onnxruntime as ort, itertools
ort.set_default_logger_severity(4)
def t(name, f):
    try:
        r = f()
        print(name, "=>", r)
    except Exception as e:
        print(name, "RAISED", type(e).__name__, str(e)[:200])
def run(model, feeds):
    s = ort.InferenceSession(model.SerializeToString())
    return s.run(None, feeds)
# C07 stale value: write a placeholder into data-holding array
a = ndx.asarray(np.array([1,2,3]))
p = ndx.array(shape=(), dtype=ndx.int64)
a[0] = p
t("setitem lazy into eager -> value", lambda: a.to_numpy())
a = ndx.asarray(np.array([1,2,3])); pl = ndx.array(shape=(3,), dtype=ndx.int64)
a += pl
t("iadd lazy -> value", lambda: a.to_numpy())
a = ndx.asarray(np.array([1,2,3])); idx = ndx.array(shape=(3,), dtype=ndx.bool)
a[idx] = 7
t("setitem lazy mask -> value", lambda: a.to_numpy())
# const-only graph nodes
a = ndx.asarray(np.array([1.,2,3])); b = (a*2+1)[::-1]; 
m = ndx.build({}, {"b": ndx.sum(b)}); print("const nodes", [n.op_type for n in m.graph.node])
# logical_and fold on lazy
xl = ndx.array(shape=("N",), dtype=ndx.bool)
r = ndx.logical_and(xl, ndx.asarray(True)); m = ndx.build({"x":xl},{"r":r}); print("and-fold nodes", [n.op_type for n in m.graph.node])
# where fold: lazy x,y shapes
xl = ndx.array(shape=("N",), dtype=ndx.float64); yl = ndx.array(shape=("M","N"), dtype=ndx.float64)
r = ndx.where(ndx.asarray(True), xl, yl); m = ndx.build({"x":xl,"y":yl},{"r":r})
t("where True lazy bcast", lambda: run(m, {"x":np.ones(3),"y":np.zeros((2,3))})[0].shape)
# all/any lazy with static shape containing 0?
xl = ndx.array(shape=("N",3), dtype=ndx.bool); r = ndx.all(xl, axis=0); m = ndx.build({"x":xl},{"r":r})
t("all lazy N=0", lambda: run(m, {"x":np.ones((0,3),dtype=bool)})[0])
t("all lazy N=2", lambda: run(m, {"x":np.ones((2,3),dtype=bool)})[0])
xl = ndx.array(shape=("N",), dtype=ndx.float64)
for name, f in [("sum", ndx.sum), ("max", ndx.max), ("min", ndx.min), ("prod", ndx.prod), ("mean", ndx.mean), ("any", lambda x: ndx.any(x>0)), ("all", lambda x: ndx.all(x>0))]:
    t(name+" lazy N=0", lambda: run(ndx.build({"x":xl},{"r":f(xl)}), {"x":np.ones((0,))})[0])
t("max eager empty", lambda: ndx.max(ndx.asarray(np.ones((0,)))).to_numpy())
# reductions
x = np.arange(24.).reshape(2,3,4)
nx = ndx.asarray(x)
for fn in ["sum","prod","max","min","mean","var","std"]:
    for ax in [None, 0, -1, (0,2), (), (1,)]:
        for kd in [False, True]:
            try:
                g = getattr(ndx,fn)(nx, axis=ax, keepdims=kd).to_numpy(); e = getattr(np,fn)(x, axis=ax, keepdims=kd)
                ok = g.shape==e.shape and np.allclose(g,e) and g.dtype==e.dtype
                if not ok: print("RED", fn, ax, kd, g.shape, e.shape, g.dtype, e.dtype)
            except Exception as ex: print("RED", fn, ax, kd, "RAISED", type(ex).__name__, str(ex)[:100])
for dt in [np.int8, np.uint8, np.uint32, np.uint64, np.int32, np.float32, np.bool_]:
    v = ndx.asarray(np.array([1,2,3]).astype(dt))
    for fn in ["sum","prod","max","min","mean","cumulative_sum"]:
        try: print(dt.__name__, fn, getattr(ndx,fn)(v).dtype, end="; ")
        except Exception as ex: print(dt.__name__, fn, "RAISED", type(ex).__name__, str(ex)[:60], end="; ")
    print()
t("argmax axis kd", lambda: ndx.argmax(nx, axis=1, keepdims=True).shape)
t("argmax int8", lambda: ndx.argmax(ndx.asarray(np.array([1,3,3],dtype=np.int8))).to_numpy())
t("argmax None keepdims", lambda: ndx.argmax(nx, keepdims=True).shape)
t("var correction", lambda: (ndx.var(nx, correction=1).to_numpy(), np.var(x, ddof=1)))
t("std int", lambda: ndx.std(ndx.asarray(np.array([1,2,3,4]))).to_numpy())
t("mean int", lambda: ndx.mean(ndx.asarray(np.array([1,2,4]))).to_numpy())
t("cumsum 2d axis1 incl", lambda: ndx.cumulative_sum(ndx.asarray(x[0]), axis=1, include_initial=True).to_numpy())
t("cumsum neg axis incl", lambda: ndx.cumulative_sum(ndx.asarray(x[0]), axis=-1, include_initial=True).to_numpy())
