import warnings; warnings.filterwarnings("ignore")
import numpy as np, ndonnx as ndx, onnx
from onnx import numpy_helper
def show(name, f, dts, n=1):
    xs = [ndx.array(shape=("N",), dtype=d) for d in dts]
    try:
        y = f(*xs)
    except Exception as e:
        print(name, [str(d) for d in dts], "RAISED", type(e).__name__, str(e)[:80]); return
    m = ndx.build({f"x{i}":x for i,x in enumerate(xs)}, {"y":y})
    env = {}
    lines=[]
    for node in m.graph.node:
        attrs = {}
        for a in node.attribute:
            v = onnx.helper.get_attribute_value(a)
            if isinstance(v, onnx.TensorProto): v = (str(numpy_helper.to_array(v).dtype), numpy_helper.to_array(v).tolist())
            attrs[a.name]=v
        lines.append(f"  {list(node.output)} = {node.op_type}({list(node.input)}) {attrs}")
    print(name, [str(d) for d in dts], "->", y.dtype); print("\n".join(lines))
show("log1p", ndx.log1p, [ndx.float64])
show("sign", ndx.sign, [ndx.int8])
show("trunc", ndx.trunc, [ndx.float32])
show("floor_divide", ndx.floor_divide, [ndx.int32, ndx.int32])
show("less", ndx.less, [ndx.uint64, ndx.uint64])
show("add nullable", ndx.add, [ndx.nint8, ndx.int16])
show("cos f64", ndx.cos, [ndx.float64])
show("roll", lambda x: ndx.roll(x, 2), [ndx.int64])
