import warnings; warnings.filterwarnings("ignore")
import numpy as np, ndonnx as ndx, onnxruntime as ort, itertools
ort.set_default_logger_severity(4)
def t(name, f):
    try:
        r = f()
        print(name, "=>", r)
    except Exception as e:
        print(name, "RAISED", type(e).__name__, str(e)[:200])
D = [ndx.bool, ndx.int8, ndx.int16, ndx.int32, ndx.int64, ndx.uint8, ndx.uint16, ndx.uint32, ndx.uint64, ndx.float32, ndx.float64, ndx.utf8]
ND = [ndx.promote_nullable(d) for d in D]
ALL = D+ND
# result_type table commutativity and errors
bad=0
tab={}
for a in ALL:
    for b in ALL:
        try: r = ndx.result_type(a,b)
        except Exception as e: r = type(e).__name__
        tab[(repr(a),repr(b))]=repr(r)
for (a,b),r in tab.items():
    if tab[(b,a)]!=r: print("noncomm",a,b,r,tab[(b,a)])
print("utf8 x int64:", tab[("Utf8","Int64")], " bool x int8:", tab[("Boolean","Int8")], "uint64 x int64:", tab[("UInt64","Int64")], "bool x float32", tab[("Boolean","Float32")])
# nary order
import random
for trip in [(ndx.uint16, ndx.int16, ndx.float32), (ndx.int8, ndx.uint8, ndx.float32), (ndx.uint64, ndx.int64, ndx.float32)]:
    print("nary", trip, ndx.result_type(*trip), ndx.result_type(trip[0], ndx.result_type(trip[1],trip[2])), ndx.result_type(ndx.result_type(trip[0],trip[1]),trip[2]), [np.result_type(*[d.to_numpy_dtype() for d in p]) for p in itertools.permutations(trip)])
# binary op result dtype vs result_type
x8 = ndx.asarray(np.array([1,2],dtype=np.int8)); u8 = ndx.asarray(np.array([1,2],dtype=np.uint8)); f32 = ndx.asarray(np.array([1,2],dtype=np.float32)); bb = ndx.asarray(np.array([True,False]))
for fn in ["add","subtract","multiply","divide","floor_divide","pow","remainder","less","equal","bitwise_and","bitwise_left_shift","atan2","logaddexp", "maximum" if hasattr(ndx,"maximum") else "add"]:
    for (p,q) in [(x8,u8),(x8,f32),(u8,u8),(x8,x8),(bb,bb),(x8,bb)]:
        try: r = getattr(ndx,fn)(p,q).dtype
        except Exception as e: r = type(e).__name__+":"+str(e)[:60]
        print(fn, p.dtype, q.dtype, "->", r)
# python scalars
for sc in [1, 1.5, True]:
    for arr in [x8,u8,f32,bb]:
        for fn in ["add","multiply"]:
            try: r = getattr(ndx,fn)(arr,sc).dtype; r2 = getattr(ndx,fn)(sc,arr).dtype
            except Exception as e: r = type(e).__name__+":"+str(e)[:60]; r2=""
            print("scalar",fn, arr.dtype, repr(sc), "->", r, r2)
