import warnings; warnings.filterwarnings("ignore")
import sys
if len(sys.argv)>1 and sys.argv[1]=="noort":
    import importlib.abc, importlib.machinery
    class Blocker(importlib.abc.MetaPathFinder):
        def find_spec(self, name, path, target=None):
            if name=="onnxruntime" or name.startswith("onnxruntime."): raise ImportError("blocked")
    sys.meta_path.insert(0, Blocker())
import numpy as np, ndonnx as ndx
def t(name, f):
    try:
        r = f()
        print(name, "=>", r)
    except Exception as e:
        print(name, "RAISED", type(e).__name__, str(e)[:200])
import ndonnx._propagation as P
print("ORT_PRESENT", P.ORT_PRESENT)
a = ndx.asarray(np.array([[1,2,3],[4,5,6]]))
t("value a", lambda: a.to_numpy())
t("a+1 value", lambda: (a+1).to_numpy())
t("a.shape", lambda: a.shape)
t("(a+1).shape", lambda: (a+1).shape)
t("where", lambda: ndx.where(a>2, a, 0).shape)
t("all", lambda: ndx.all(a>0).shape)
t("logical_and", lambda: ndx.logical_and(a>0, True).shape)
t("reshape", lambda: ndx.reshape(a+1, (3,2)).shape)
t("roll", lambda: ndx.roll(a+1, 1, axis=1).shape)
t("sum", lambda: ndx.sum(a+1).shape)
t("searchsorted", lambda: ndx.searchsorted(ndx.asarray(np.array([1,2,3]))+0, ndx.asarray(np.array([2]))).shape)
t("iter", lambda: len(list(a+1)))
t("setitem", lambda: (lambda b: (b.__setitem__((0,0), 9), b.shape)[1])(a+1))
t("cumsum incl", lambda: ndx.cumulative_sum(ndx.asarray(np.array([1,2,3]))+0, include_initial=True).shape)
t("build", lambda: len(ndx.build({}, {"o": ndx.sum((a+1)[:, ::-1])}).SerializeToString()))
z = ndx.array(shape=("N", 4), dtype=ndx.int64)
for name, f in [("z[1:3,:]", lambda: z[1:3,:]), ("z[:, 0]", lambda: z[:,0]), ("reshape", lambda: ndx.reshape(z,(-1,))), ("sum0", lambda: ndx.sum(z,axis=0)), ("T", lambda: z.T), ("z[z>0]", lambda: z[z>0]), ("concat", lambda: ndx.concat([z,z],axis=1)), ("expand", lambda: ndx.expand_dims(z,0)), ("nonzero", lambda: ndx.nonzero(z)[0]), ("uniq", lambda: ndx.unique_values(z)), ("bcast", lambda: ndx.broadcast_to(z[0,:], (5,4))), ("z[None,...,1]", lambda: z[None,...,1]), ("roll", lambda: ndx.roll(z,1,axis=0)), ("flip", lambda: ndx.flip(z))]:
    t(name+" static", lambda: (lambda e: (e.shape, e.ndim, e.dtype))(f()))
