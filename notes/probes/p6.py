import warnings; warnings.filterwarnings("ignore")
import numpy as np, ndonnx as ndx, onnxruntime as ort, onnx, json, hashlib, sys
ort.set_default_logger_severity(4)
def t(name, f):
    try:
        r = f()
        print(name, "=>", r)
    except Exception as e:
        print(name, "RAISED", type(e).__name__, str(e)[:200])
x = ndx.array(shape=("N",3), dtype=ndx.nfloat32); u = ndx.array(shape=(2,), dtype=ndx.utf8)
y = x + 1
m = ndx.build({"x":x, "u":u}, {"y":y, "y2": y, "c": ndx.asarray(np.array([1,2]))})
print([i.name for i in m.graph.input], [o.name for o in m.graph.output])
print([(o.name, o.type.tensor_type.elem_type, [d.dim_param or d.dim_value for d in o.type.tensor_type.shape.dim]) for o in m.graph.output])
print(m.metadata_props[0].value)
t("checker", lambda: onnx.checker.check_model(m, full_check=True))
t("ort load", lambda: [i.name for i in ort.InferenceSession(m.SerializeToString()).get_inputs()])
# unused input u present? yes above. output same array twice
# determinism within process
m2 = ndx.build({"x":x, "u":u}, {"y":y, "y2": y, "c": ndx.asarray(np.array([1,2]))})
print("same bytes:", m.SerializeToString()==m2.SerializeToString())
print("hash", hashlib.sha256(m.SerializeToString()).hexdigest()[:16])
# name collision
a = ndx.array(shape=(2,), dtype=ndx.nint64); b = ndx.array(shape=(2,), dtype=ndx.int64)
t("collision", lambda: [i.name for i in ndx.build({"a":a, "a_values": b}, {"o": b}).graph.input])
# spox interop
import spox.opset.ai.onnx.v19 as op
v = ndx.array(shape=("N",), dtype=ndx.float32)
w = ndx.from_spox_var(op.relu(v.spox_var()))
t("spox", lambda: ort.InferenceSession(ndx.build({"v":v},{"w":w*2}).SerializeToString()).run(None, {"v":np.array([-1,2],dtype=np.float32)}))
c = ndx.asarray(np.array([1.,2.])); c2 = ndx.from_spox_var(c.spox_var()); t("from_spox_var of eager", lambda: c2.to_numpy())
# static shape vs runtime
z = ndx.array(shape=("N", 4), dtype=ndx.int64)
for name, e in [("z[1:3]", z[1:3]), ("z[:, 0]", z[:,0]), ("reshape", ndx.reshape(z,(-1,))), ("sum0", ndx.sum(z,axis=0)), ("T", z.T), ("z[z>0]", z[z>0]), ("concat", ndx.concat([z,z],axis=1)), ("expand", ndx.expand_dims(z,0)), ("nonzero", ndx.nonzero(z)[0]), ("uniq", ndx.unique_values(z)), ("bcast", ndx.broadcast_to(z[0], (5,4)))]:
    t(name+" static", lambda: (e.shape, e.ndim, e.dtype))
