import warnings; warnings.filterwarnings("ignore")
import numpy as np, ndonnx as ndx, traceback
def t(name, f):
    try:
        r = f()
        print(name, "=>", r)
    except Exception as e:
        print(name, "RAISED", type(e).__name__, str(e)[:150])

a = ndx.asarray(np.array([3.,1.,2.,0.5]))
t("argmin", lambda: ndx.argmin(a).to_numpy())
t("argmax", lambda: ndx.argmax(a).to_numpy())
t("isfinite nan", lambda: ndx.isfinite(ndx.asarray(np.array([np.nan, np.inf, 1.0]))).to_numpy())
t("log1p", lambda: ndx.log1p(ndx.asarray(np.array([1.0, 0.0]))).to_numpy())
t("np.log1p", lambda: np.log1p(np.array([1.0,0.0])))
t("atan2", lambda: ndx.atan2(ndx.asarray(np.array([1.0,-1.0, 1.0])), ndx.asarray(np.array([-1.0,-1.0, 0.0]))).to_numpy())
t("np.atan2", lambda: np.arctan2(np.array([1.0,-1.0,1.0]), np.array([-1.0,-1.0,0.0])))
t("remainder", lambda: ndx.remainder(ndx.asarray(np.array([-7, 7, -7])), ndx.asarray(np.array([3, -3, -3]))).to_numpy())
t("np.remainder", lambda: np.remainder(np.array([-7,7,-7]), np.array([3,-3,-3])))
t("remainder float", lambda: ndx.remainder(ndx.asarray(np.array([-7., 7.])), ndx.asarray(np.array([3., -3.]))).to_numpy())
t("floor_divide big", lambda: ndx.floor_divide(ndx.asarray(np.array([2**62+1], dtype=np.int64)), ndx.asarray(np.array([1], dtype=np.int64))).to_numpy())
t("floor_divide neg", lambda: ndx.floor_divide(ndx.asarray(np.array([-7,7])), ndx.asarray(np.array([2,-2]))).to_numpy())
t("expm1 tiny", lambda: ndx.expm1(ndx.asarray(np.array([1e-20]))).to_numpy())
t("logaddexp big", lambda: ndx.logaddexp(ndx.asarray(np.array([1000.])), ndx.asarray(np.array([1000.]))).to_numpy())
t("sum method keepdims", lambda: ndx.asarray(np.ones((2,3))).sum(axis=0, keepdims=True).shape)
t("all empty axis", lambda: ndx.all(ndx.asarray(np.ones((0,3),dtype=bool)), axis=0).to_numpy())
t("np all empty axis", lambda: np.all(np.ones((0,3),dtype=bool), axis=0))
t("where shortcut bcast", lambda: ndx.where(ndx.asarray(True), ndx.asarray(1.0), ndx.asarray(np.array([1.,2.,3.]))).to_numpy())
t("where equal shortcut cond shape", lambda: ndx.where(ndx.asarray(np.array([True,False,True])), ndx.asarray(1.0), ndx.asarray(1.0)).to_numpy())
x = ndx.asarray(np.ma.masked_array([True], mask=[True]))
t("logical_and null shortcut", lambda: ndx.logical_and(x, ndx.asarray(np.array([True,False]))).to_numpy())
x2 = ndx.asarray(np.ma.masked_array([True], mask=[False]))
t("logical_and nbool dtype", lambda: ndx.logical_and(x2, ndx.asarray(np.array([True,False]))).dtype)
s = ndx.asarray(np.ma.masked_array([3,1,2], mask=[False,True,False]))
t("sort nullable", lambda: ndx.sort(s).to_numpy())
m = ndx.asarray(np.ma.masked_array([[1.,2.],[3.,4.]], mask=[[False,True],[False,False]]))
t("matmul nullable", lambda: ndx.matmul(m, m).to_numpy())
b = ndx.asarray(np.array([1,2,3]))
c = ndx.ceil(b); c[0] = 100
t("ceil alias", lambda: b.to_numpy())
b = ndx.asarray(np.array([1,2,3])); c = ndx.floor(b); c[0]=100
t("floor alias", lambda: b.to_numpy())
b = ndx.asarray(np.array([1,2,3])); c = ndx.round(b); c[0]=100
t("round alias", lambda: b.to_numpy())
b = ndx.asarray(np.array([1,2,3])); c = ndx.trunc(b); c[0]=100
t("trunc alias", lambda: b.to_numpy())
b = ndx.asarray(np.array([1,2,3])); c = ndx.asarray(b); c[0]=100
t("asarray alias (allowed? copy=None)", lambda: b.to_numpy())
b = ndx.asarray(np.array([1,2,3])); c = ndx.reshape(b,(3,)); c[0]=100
t("reshape alias", lambda: b.to_numpy())
b = ndx.asarray(np.array([[1,2,3]])); c = ndx.squeeze(b,0); c[0]=100
t("squeeze alias", lambda: b.to_numpy())
