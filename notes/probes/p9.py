import warnings; warnings.filterwarnings("ignore")
import numpy as np, ndonnx as ndx, onnxruntime as ort, itertools
ort.set_default_logger_severity(4)
def t(name, f):
    try:
        r = f()
        print(name, "=>", r)
    except Exception as e:
        print(name, "RAISED", type(e).__name__, str(e)[:160])
def chk(name, got, exp):
    try:
        g = got(); e = exp()
        ok = (g.shape==e.shape and g.dtype==e.dtype and np.array_equal(g,e))
        print(name, "OK" if ok else f"MISMATCH got {g.tolist()} {g.dtype} exp {e.tolist()} {e.dtype}")
    except Exception as ex:
        print(name, "RAISED", type(ex).__name__, str(ex)[:160])
x = np.arange(24).reshape(2,3,4); nx = lambda: ndx.asarray(x.copy())
chk("permute", lambda: ndx.permute_dims(nx(), (2,0,1)).to_numpy(), lambda: np.transpose(x,(2,0,1)))
chk("expand -1", lambda: ndx.expand_dims(nx(), -1).to_numpy(), lambda: np.expand_dims(x,-1))
chk("squeeze", lambda: ndx.squeeze(ndx.asarray(x[:1]), 0).to_numpy(), lambda: np.squeeze(x[:1],0))
chk("flip ax -1", lambda: ndx.flip(nx(), axis=-1).to_numpy(), lambda: np.flip(x,-1))
chk("flip tuple", lambda: ndx.flip(nx(), axis=(0,2)).to_numpy(), lambda: np.flip(x,(0,2)))
chk("roll neg big", lambda: ndx.roll(nx(), -9, axis=2).to_numpy(), lambda: np.roll(x,-9,2))
chk("roll tuple", lambda: ndx.roll(nx(), (1,2), axis=(0,-1)).to_numpy(), lambda: np.roll(x,(1,2),(0,-1)))
chk("roll None", lambda: ndx.roll(nx(), 5).to_numpy(), lambda: np.roll(x,5))
chk("concat ax None", lambda: ndx.concat([nx(), nx()], axis=None).to_numpy(), lambda: np.concatenate([x,x],axis=None))
chk("concat ax -1", lambda: ndx.concat([nx(), nx()], axis=-1).to_numpy(), lambda: np.concatenate([x,x],axis=-1))
chk("stack ax 1", lambda: ndx.stack([nx(), nx()], axis=1).to_numpy(), lambda: np.stack([x,x],axis=1))
chk("stack ax -1", lambda: ndx.stack([nx(), nx()], axis=-1).to_numpy(), lambda: np.stack([x,x],axis=-1))
chk("take", lambda: ndx.take(nx(), ndx.asarray(np.array([2,0])), axis=1).to_numpy(), lambda: np.take(x,[2,0],axis=1))
chk("take neg axis", lambda: ndx.take(nx(), ndx.asarray(np.array([2,0])), axis=-1).to_numpy(), lambda: np.take(x,[2,0],axis=-1))
chk("tril k", lambda: ndx.tril(nx(), k=-1).to_numpy(), lambda: np.tril(x,-1))
chk("reshape -1", lambda: ndx.reshape(nx(), (4,-1)).to_numpy(), lambda: np.reshape(x,(4,-1)))
chk("broadcast_to", lambda: ndx.broadcast_to(ndx.asarray(x[0,0]), (3,4)).to_numpy(), lambda: np.broadcast_to(x[0,0],(3,4)))
chk("mT", lambda: nx().mT.to_numpy(), lambda: np.swapaxes(x,-1,-2))
t("stack nullable", lambda: ndx.stack([ndx.asarray(np.ma.masked_array([1,2],mask=[0,1]))]*2).to_numpy())
t("concat nullable", lambda: ndx.concat([ndx.asarray(np.ma.masked_array([1,2],mask=[0,1]))]*2).to_numpy())
t("concat mixed dtype", lambda: ndx.concat([ndx.asarray(np.array([1],dtype=np.int8)), ndx.asarray(np.array([1.5]))]).dtype)
t("broadcast_arrays", lambda: [a.shape for a in ndx.broadcast_arrays(ndx.asarray(x), ndx.asarray(np.array(["a"]*4)))])
# setitem
def si(idx, v, base=None):
    b = (x.copy() if base is None else base.copy()); a = ndx.asarray(b.copy())
    def got():
        a[idx] = v; return a.to_numpy()
    def exp():
        b[idx] = v; return b
    chk(f"setitem {idx} {v}", got, exp)
si((0,1,2), 99); si((slice(None), 0, slice(None,None,-1)), 7); si((Ellipsis, 0), np.array([1,2,3])); si((1,), 5); si((0, slice(1,3), slice(None)), np.arange(4)); si((slice(None),slice(None),slice(None)), 3.7)
si(slice(None,None,2), 9, np.arange(5)); si(-1, 9, np.arange(5))
mask = x>10
def gm():
    a = nx(); a[ndx.asarray(mask)] = 0; return a.to_numpy()
def em():
    b = x.copy(); b[mask]=0; return b
chk("setitem mask", gm, em)
def gi():
    a = ndx.asarray(np.arange(5)); a[ndx.asarray(np.array([0,3]))] = ndx.asarray(np.array([7,8])); return a.to_numpy()
def ei():
    b = np.arange(5); b[np.array([0,3])] = [7,8]; return b
chk("setitem intarr", gi, ei)
def g2():
    a = ndx.asarray(np.arange(5)); b = a.copy(); a += 1; a *= 2; a -= 3; return np.stack([a.to_numpy(), b.to_numpy()])
chk("iops+copy", g2, lambda: np.stack([(np.arange(5)+1)*2-3, np.arange(5)]))
def g3():
    a = ndx.asarray(np.ma.masked_array([1,2,3],mask=[0,1,0])); v = a.values; a[0] = 50; return v.to_numpy()
t("values accessor alias", g3)
def g4():
    a = ndx.asarray(np.arange(5)); b = a[:] ; b[0]=9; c = a[...]; c[1]=9; return a.to_numpy()
t("a[:] alias?", g4)
def g5():
    a = ndx.asarray(np.arange(5)); b = ndx.positive(a); b[0]=9; w = ndx.where(ndx.asarray(True), a, a); w[1]=9; f = ndx.flip(ndx.asarray(np.array(3))); return a.to_numpy()
t("positive/where alias?", g5)
def g6():
    a = ndx.asarray(np.arange(5)); b = ndx.astype(a, ndx.int64, copy=False); b[0]=9; return a.to_numpy()
t("astype copy=False shares (allowed)", g6)
def g7():
    a = ndx.asarray(np.arange(6)); b = ndx.reshape(a, (2,3), copy=False); return (a.shape, b.shape, b is a)
t("reshape copy=False mutates a!", g7)
