import warnings; warnings.filterwarnings("ignore")
import numpy as np, ndonnx as ndx, onnxruntime as ort, itertools
def t(name, f):
    try:
        r = f()
        print(name, "=>", r)
    except Exception as e:
        print(name, "RAISED", type(e).__name__, str(e)[:200])
def run(model, feeds):
    s = ort.InferenceSession(model.SerializeToString())
    return s.run(None, feeds)
x = np.array([0.1, 1.0, 2.5, 1e-3])
for fn in []:
    arg = x if fn!="acos" else x/3
    got = getattr(ndx,fn)(ndx.asarray(arg)).to_numpy(); exp = getattr(np, {"acos":"arccos","asinh":"arcsinh","atan":"arctan"}.get(fn,fn))(arg)
    print(fn, got.dtype, np.max(np.abs(got-exp)/np.abs(exp))/np.finfo(np.float64).eps, "ulps-ish")
# indexing
a = np.arange(10)
na = ndx.asarray(a)
for idx in [slice(None,None,-1), slice(-1,None,-2), slice(None,-11,-1), slice(8,2,-3), slice(2,100), slice(-100,3), slice(None,None,2), (Ellipsis,), slice(5,5), slice(0,0,-1)]:
    try:
        g = na[idx].to_numpy(); ok = np.array_equal(g, a[idx])
    except Exception as e:
        g = repr(e); ok=False
    print("idx", idx, ok, g if not ok else "")
# lazy indexing
xl = ndx.array(shape=("N",), dtype=ndx.int64)
for idx in [slice(None,None,-1), slice(-1,None,-2), slice(8,2,-3), -1, slice(None,None,-3)]:
    m = ndx.build({"x":xl},{"y":xl[idx]})
    for n in [0,1,2,5,10]:
        v = np.arange(n)
        try:
            out = run(m, {"x":v})[0]; ok = np.array_equal(out, v[idx]) 
        except Exception as e:
            ok = "ERR-ort" if not (isinstance(idx,int) and n==0) else "n/a"
            try: v[idx]
            except Exception: ok = "both-raise"
        if ok is not True: print("lazy idx", idx, n, ok)
# too few indices
b = ndx.asarray(np.zeros((2,3)))
t("b[0] rank2", lambda: b[0].to_numpy())
t("b[0,0,0]", lambda: b[0,0,0].to_numpy())
t("b['a']", lambda: b['a'])
t("b[1.5]", lambda: b[1.5])
t("b[5] oob", lambda: b[5,0].to_numpy())
t("b[True]", lambda: b[True].to_numpy() )
