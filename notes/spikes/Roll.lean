/-! Spike (round 0, exploratory): 1-D `roll` = Range/Add/Mod(fmod=0)/Gather is rotation, any shift. -/
namespace RollSpike

structure T1 (α : Type) where
  n : Nat
  get : Nat → α

/-- ONNX Gather (axis 0, 1-D data, 1-D indices, negative indices allowed). -/
def gather (x : T1 α) (idx : T1 Int) : T1 α :=
  ⟨idx.n, fun i => let j := idx.get i; x.get (if j < 0 then (j + x.n).toNat else j.toNat)⟩

def gatherOk (x : T1 α) (idx : T1 Int) : Prop :=
  ∀ i, i < idx.n → -(x.n : Int) ≤ idx.get i ∧ idx.get i < x.n

/-- mirrors `UniformShapeOperations.roll` for one axis. -/
def rollIdx (len : Nat) (sh : Int) : T1 Int :=
  ⟨len, fun r => ((r : Int) + (-sh + len)) % (len : Int)⟩

def roll (x : T1 α) (sh : Int) : T1 α := gather x (rollIdx x.n sh)

theorem roll_ok (x : T1 α) (sh : Int) : gatherOk x (rollIdx x.n sh) := by
  intro i hi
  simp only [rollIdx] at *
  have hpos : (0 : Int) < x.n := by omega
  constructor
  · have := Int.emod_nonneg ((i : Int) + (-sh + x.n)) (by omega : (x.n : Int) ≠ 0); omega
  · exact Int.emod_lt_of_pos _ hpos

/-- NumPy: roll(x, s)[i] = x[(i - s) mod n]. -/
theorem roll_spec (x : T1 α) (sh : Int) (i : Nat) (hi : i < x.n) :
    (roll x sh).get i = x.get (((i : Int) - sh) % (x.n : Int)).toNat := by
  have hpos : (0 : Int) < x.n := by omega
  have e : ((i : Int) + (-sh + x.n)) % (x.n : Int) = ((i : Int) - sh) % (x.n : Int) := by
    have : (i : Int) + (-sh + x.n) = ((i : Int) - sh) + x.n := by omega
    rw [this, Int.add_emod_right]
  have h0 := Int.emod_nonneg ((i : Int) - sh) (by omega : (x.n : Int) ≠ 0)
  simp only [roll, gather, rollIdx, e]
  simp [Int.not_lt.mpr h0]

end RollSpike
