/-! Spike (round 0, exploratory): NumPy promotion on the 12 core dtypes in closed form (validated
    against numpy 2.5.3 on all 144 pairs by a Python one-off), nullable closure, and the lattice laws
    of C03 by `decide +kernel` over all pairs / triples. -/
namespace PromoteSpike
inductive Core | bool | i8 | i16 | i32 | i64 | u8 | u16 | u32 | u64 | f32 | f64 | utf8
deriving DecidableEq, Repr
open Core
def Core.all : List Core := [bool, i8, i16, i32, i64, u8, u16, u32, u64, f32, f64, utf8]
structure Dt where
  core : Core
  nullable : Bool
deriving DecidableEq, Repr
def Dt.all : List Dt := Core.all.flatMap fun c => [⟨c, false⟩, ⟨c, true⟩]

inductive Kind | b | i | u | f | s deriving DecidableEq
def kind : Core → Kind
  | .bool => .b | .i8 | .i16 | .i32 | .i64 => .i | .u8 | .u16 | .u32 | .u64 => .u
  | .f32 | .f64 => .f | .utf8 => .s
def bits : Core → Nat
  | .bool => 1 | .i8 | .u8 => 8 | .i16 | .u16 => 16 | .i32 | .u32 | .f32 => 32
  | .i64 | .u64 | .f64 => 64 | .utf8 => 0
def sint : Nat → Core | 8 => i8 | 16 => i16 | 32 => i32 | _ => i64
def uint : Nat → Core | 8 => u8 | 16 => u16 | 32 => u32 | _ => u64

/-- `numpy.result_type` on two dtypes (strings absorb, exactly as NumPy does). -/
def promoteCore (a b : Core) : Core :=
  match kind a, kind b with
  | .s, _ | _, .s => utf8
  | .b, _ => b
  | _, .b => a
  | .f, .f => if bits a ≥ bits b then a else b
  | .f, _ => if bits b ≤ 16 then a else f64
  | _, .f => if bits a ≤ 16 then b else f64
  | .i, .i => sint (max (bits a) (bits b))
  | .u, .u => uint (max (bits a) (bits b))
  | .i, .u => if bits b < bits a then a else if bits b = 64 then f64 else sint (2 * bits b)
  | .u, .i => if bits a < bits b then b else if bits a = 64 then f64 else sint (2 * bits a)

/-- ndonnx `result_type` on two dtypes: promote the value dtypes, nullable if any operand is. -/
def promote (a b : Dt) : Dt := ⟨promoteCore a.core b.core, a.nullable || b.nullable⟩

theorem comm : ∀ a ∈ Dt.all, ∀ b ∈ Dt.all, promote a b = promote b a := by decide +kernel

theorem nullable_iff : ∀ a ∈ Dt.all, ∀ b ∈ Dt.all,
    (promote a b).nullable = (a.nullable || b.nullable) := by decide +kernel

/-- triples that do not mix signed, unsigned and floating kinds (C03's restriction) -/
def sameLattice (a b c : Dt) : Bool :=
  let ks := [kind a.core, kind b.core, kind c.core]
  !(ks.contains .i && ks.contains .u && ks.contains .f)

theorem assoc : ∀ a ∈ Dt.all, ∀ b ∈ Dt.all, ∀ c ∈ Dt.all, sameLattice a b c →
    promote a (promote b c) = promote (promote a b) c := by decide +kernel

/-- the restriction is necessary: NumPy-style cross-kind promotion is not associative -/
theorem assoc_fails_cross_kind :
    promote ⟨u16, false⟩ (promote ⟨i16, false⟩ ⟨f32, false⟩)
      ≠ promote (promote ⟨u16, false⟩ ⟨i16, false⟩) ⟨f32, false⟩ := by decide

/-- pre-registered C03 suspect: strings *do* promote with non-strings in `result_type` -/
theorem string_absorbs : promote ⟨utf8, false⟩ ⟨i64, false⟩ = ⟨utf8, false⟩ := by decide
end PromoteSpike
