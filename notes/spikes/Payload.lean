/-! Spike (round 0, exploratory): C04 statement shape — mask rule and payload non-interference
    for a pointwise binary `variadic_op` with broadcasting, index-function tensors. -/
namespace PayloadSpike

structure NArr (α : Type) where
  shape : List Nat
  values : List Nat → α
  null : List Nat → Bool

/-- NumPy/ONNX broadcasting of an output index back to an operand of shape `s`
    (right-aligned; extent-1 axes read index 0). -/
def bidx (s : List Nat) (idx : List Nat) : List Nat :=
  let j := idx.drop (idx.length - s.length)
  List.zipWith (fun d i => if d = 1 then 0 else i) s j

def binop (f : α → α → β) (oshape : List Nat) (x y : NArr α) : NArr β :=
  ⟨oshape,
   fun idx => f (x.values (bidx x.shape idx)) (y.values (bidx y.shape idx)),
   fun idx => x.null (bidx x.shape idx) || y.null (bidx y.shape idx)⟩

/-- two arrays that differ only in the payload stored under nulls -/
def SameUpToPayload (a b : NArr α) : Prop :=
  a.shape = b.shape ∧ (∀ i, a.null i = b.null i) ∧ (∀ i, a.null i = false → a.values i = b.values i)

theorem mask_rule (f : α → α → β) (o) (x y : NArr α) (idx) :
    (binop f o x y).null idx = (x.null (bidx x.shape idx) || y.null (bidx y.shape idx)) := rfl

theorem payload_noninterference (f : α → α → β) (o) (x x' y y' : NArr α)
    (hx : SameUpToPayload x x') (hy : SameUpToPayload y y') :
    (∀ idx, (binop f o x y).null idx = (binop f o x' y').null idx) ∧
    (∀ idx, (binop f o x y).null idx = false →
        (binop f o x y).values idx = (binop f o x' y').values idx) := by
  obtain ⟨hsx, hnx, hvx⟩ := hx
  obtain ⟨hsy, hny, hvy⟩ := hy
  constructor
  · intro idx; simp [binop, hsx, hsy, hnx, hny]
  · intro idx hn
    simp only [binop, Bool.or_eq_false_iff] at hn ⊢
    rw [hvx _ hn.1, hvy _ hn.2, hsx, hsy]

end PayloadSpike
