/-! Spike (round 0, exploratory — not part of the machinery): Python slice semantics vs
    ndonnx `index_normalise` + ONNX Slice-13 clamping, one axis, all n/start/stop/step. -/
namespace SliceSpike

def IMAX : Int := 9223372036854775807
def IMIN : Int := -9223372036854775808

def clamp (v lo hi : Int) : Int := if v < lo then lo else if v > hi then hi else v

/-- CPython `PySlice_AdjustIndices` after default filling (`slice.indices(n)`). -/
def pyAdj (n step v : Int) : Int :=
  if v < 0 then (if v + n < (if step > 0 then 0 else -1) then (if step > 0 then 0 else -1) else v + n)
  else (if v > (if step > 0 then n else n - 1) then (if step > 0 then n else n - 1) else v)
def pyStart (n step : Int) : Option Int → Int
  | none => if step > 0 then 0 else n - 1
  | some v => pyAdj n step v
def pyStop (n step : Int) : Option Int → Int
  | none => if step > 0 then n else -1
  | some v => pyAdj n step v

/-- ndonnx `index_normalise` on one slice (step already defaulted to 1 when None). -/
def normStart (step : Int) : Option Int → Int
  | some v => v
  | none => if step > 0 then 0 else IMAX
def normStop (step : Int) : Option Int → Int
  | some v => v
  | none => if step > 0 then IMAX else IMIN

/-- ONNX Slice-13 per-axis clamping (reference implementation / onnxruntime). -/
def oxStart (n s step : Int) : Int :=
  let s0 := if s < 0 then s + n else s
  if step > 0 then clamp s0 0 n else clamp s0 0 (n - 1)
def oxStop (n e step : Int) : Int :=
  let e0 := if e < 0 then e + n else e
  if step > 0 then clamp e0 0 n else clamp e0 (-1) (n - 1)

/-- The Array-API standard's bounds on explicit slice ends (the domain of property C08). -/
def stdBounds (n step : Int) (start stop : Option Int) : Prop :=
  (∀ a, start = some a → if step > 0 then -n ≤ a ∧ a ≤ n else -n ≤ a ∧ a ≤ max 0 (n - 1)) ∧
  (∀ b, stop = some b → if step > 0 then -n ≤ b ∧ b ≤ n else -n - 1 ≤ b ∧ b ≤ max 0 (n - 1))

theorem stop_agree (n : Int) (hn : 1 ≤ n) (hn' : n ≤ IMAX) (step : Int) (_hs : step ≠ 0)
    (stop : Option Int) (hb : ∀ b, stop = some b → IMIN ≤ b ∧ b ≤ IMAX) :
    oxStop n (normStop step stop) step = pyStop n step stop := by
  unfold oxStop normStop pyStop pyAdj clamp IMAX IMIN at *
  rcases stop with _ | b
  · simp only []; split <;> split <;> omega
  · have := hb b rfl; simp only []; split <;> split <;> split <;> omega

theorem start_agree (n : Int) (hn : 1 ≤ n) (hn' : n ≤ IMAX) (step : Int) (hs : step ≠ 0)
    (start : Option Int) (ha : ∀ a, start = some a → IMIN ≤ a ∧ a ≤ IMAX)
    (hdom : ∀ a, start = some a → step < 0 → -n ≤ a) :
    oxStart n (normStart step start) step = pyStart n step start := by
  unfold oxStart normStart pyStart pyAdj clamp IMAX IMIN at *
  rcases start with _ | a
  · simp only []; split <;> split <;> omega
  · have := ha a rfl
    by_cases hneg : step < 0
    · have := hdom a rfl hneg
      simp only []; split <;> split <;> split <;> omega
    · simp only []; split <;> split <;> split <;> omega

end SliceSpike
