/-! Spike (round 0, exploratory): N-d tensors as index functions; the reverse-order scalar Gathers
    of `opx.getitem` equal "fill the integer entries in at their original axes". -/
namespace GatherSpike

structure Tensor (α : Type) where
  shape : List Nat
  get : List Nat → α

/-- ONNX Gather with a scalar (rank-0, already normalised) index on axis `ax`: removes the axis. -/
def gatherScalar (x : Tensor α) (ax : Nat) (i : Nat) : Tensor α :=
  ⟨x.shape.eraseIdx ax, fun idx => x.get (idx.take ax ++ i :: idx.drop ax)⟩

/-- entries among the non-None index entries: `some i` = integer index, `none` = slice (axis kept). -/
abbrev Entries := List (Option Nat)

/-- mirrors `for axis, axis_index in reversed(axis_indices): var = gather(var, axis_index, axis)`
    for entries located at axes `k, k+1, …`. -/
def gatherStage : Nat → Entries → Tensor α → Tensor α
  | _, [], x => x
  | k, none :: es, x => gatherStage (k + 1) es x
  | k, some i :: es, x => gatherScalar (gatherStage (k + 1) es x) k i

/-- NumPy: integer entries are filled in, kept axes consume the output index. -/
def fill : Entries → List Nat → List Nat
  | [], idx => idx
  | some i :: es, idx => i :: fill es idx
  | none :: es, [] => fill es []
  | none :: es, j :: idx => j :: fill es idx

def keptCount : Entries → Nat
  | [] => 0
  | none :: es => keptCount es + 1
  | some _ :: es => keptCount es

theorem gatherStage_get (es : Entries) : ∀ (k : Nat) (x : Tensor α) (idx : List Nat),
    k + keptCount es ≤ idx.length →
    (gatherStage k es x).get idx = x.get (idx.take k ++ fill es (idx.drop k)) := by
  induction es with
  | nil => intro k x idx _; simp [gatherStage, fill]
  | cons e es ih =>
    intro k x idx h
    cases e with
    | none =>
      simp only [gatherStage, keptCount] at *
      rw [ih (k+1) x idx (by omega)]
      have hk : k < idx.length := by omega
      congr 1
      rw [List.take_succ_eq_append_getElem hk, List.append_assoc]
      congr 1
      rw [List.drop_eq_getElem_cons hk]
      simp [fill]
    | some i =>
      simp only [gatherStage, keptCount, gatherScalar] at *
      have hk : k ≤ idx.length := by omega
      rw [ih (k+1) x (idx.take k ++ i :: idx.drop k) (by simp; omega)]
      congr 1
      have h1 : (idx.take k).length = k := by simp; omega
      have e1 : (idx.take k ++ i :: idx.drop k).take (k+1) = idx.take k ++ [i] := by
        rw [List.take_append, h1]; simp [List.take_take]
      have e2 : (idx.take k ++ i :: idx.drop k).drop (k+1) = idx.drop k := by
        rw [List.drop_append, h1]; simp; omega
      rw [e1, e2]; simp [fill]

end GatherSpike
