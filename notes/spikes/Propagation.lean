/-! Spike (round 0, exploratory): the `@eager_propagate` wrapper as a transition on a heap of
    (graph variable, eager value) cells; soundness invariant over arbitrary histories. -/
namespace PropSpike

abbrev Val := Int            -- stands for a tensor value
abbrev Op := String

inductive Expr
  | input (name : String)
  | const (v : Val)
  | node (op : Op) (args : List Expr)

variable (sem : Op → List Val → Option Val)   -- operator semantics (assumption D)

mutual
def eval (env : String → Option Val) : Expr → Option Val
  | .input n => env n
  | .const v => some v
  | .node op args => do let vs ← evalList env args; sem op vs
def evalList (env : String → Option Val) : List Expr → Option (List Val)
  | [] => some []
  | e :: es => do let v ← eval env e; let vs ← evalList env es; some (v :: vs)
end

structure Cell where
  var : Expr
  eager : Option Val

abbrev Heap := List Cell

/-- one API-level transition -/
inductive Step
  | data (v : Val)                       -- asarray(value)
  | placeholder (name : String)          -- ndx.array(...)
  | prim (op : Op) (args : List Nat)     -- any @eager_propagate primitive
  | copy (r : Nat)
  | set (dst src : Nat)                  -- _CoreArray._set (used by __setitem__)

def allEager (h : Heap) : List Nat → Option (List Val)
  | [] => some []
  | r :: rs => do let c ← h[r]?; let v ← c.eager; let vs ← allEager h rs; some (v :: vs)

def varsOf (h : Heap) : List Nat → Option (List Expr)
  | [] => some []
  | r :: rs => do let c ← h[r]?; let es ← varsOf h rs; some (c.var :: es)

/-- the wrapper: trace the node; if all inputs hold data and onnxruntime is present, evaluate the same
    node on constants and store value + Constant. `none` = Python exception. -/
def step (ort : Bool) (h : Heap) : Step → Option Heap
  | .data v => some (h ++ [⟨.const v, some v⟩])
  | .placeholder n => some (h ++ [⟨.input n, none⟩])
  | .prim op args => do
      let vars ← varsOf h args
      match (if ort then allEager h args else none) with
      | some vs => do let v ← sem op vs; some (h ++ [⟨.const v, some v⟩])
      | none => some (h ++ [⟨.node op vars, none⟩])
  | .copy r => do
      let c ← h[r]?
      some (h ++ [match c.eager with | some v => ⟨.const v, some v⟩ | none => ⟨c.var, none⟩])
  | .set dst src => do
      let c ← h[src]?
      if dst < h.length then some (h.set dst ⟨c.var, c.eager⟩) else none

/-- C07 soundness: a reported value is what the variable denotes under every placeholder assignment. -/
def Sound (h : Heap) : Prop :=
  ∀ c ∈ h, ∀ v, c.eager = some v → ∀ env, eval sem env c.var = some v

theorem evalList_of_allEager (h : Heap) (hs : Sound sem h) (env) :
    ∀ (args : List Nat) (vs : List Val) (vars : List Expr),
      allEager h args = some vs → varsOf h args = some vars → evalList sem env vars = some vs := by
  intro args
  induction args with
  | nil => intro vs vars h1 h2; simp [allEager, varsOf] at h1 h2; subst h1 h2; simp [evalList]
  | cons r rs ih =>
    intro vs vars h1 h2
    simp only [allEager, varsOf, Option.bind_eq_bind] at h1 h2
    cases hc : h[r]? with
    | none => simp [hc] at h1
    | some c =>
      simp only [hc, Option.bind_some] at h1 h2
      cases he : c.eager with
      | none => simp [he] at h1
      | some v =>
        simp only [he, Option.bind_some] at h1
        cases ha : allEager h rs with
        | none => simp [ha] at h1
        | some vs' =>
          cases hv : varsOf h rs with
          | none => simp [hv] at h2
          | some es =>
            simp [ha] at h1; simp [hv] at h2; subst h1 h2
            have hmem : c ∈ h := List.mem_of_getElem? hc
            simp [evalList, hs c hmem v he env, ih vs' es ha hv]

/-- the propagated constant is exactly what the traced node denotes, for every env -/
theorem prim_faithful (h : Heap) (hs : Sound sem h) (op : Op) (args : List Nat) (vs vars v)
    (h1 : allEager h args = some vs) (h2 : varsOf h args = some vars) (h3 : sem op vs = some v) (env) :
    eval sem env (.node op vars) = some v := by
  simp [eval, evalList_of_allEager sem h hs env args vs vars h1 h2, h3]

theorem step_sound (ort : Bool) (h h' : Heap) (s : Step) (hs : Sound sem h)
    (hstep : step sem ort h s = some h') : Sound sem h' := by
  cases s with
  | data v =>
    simp [step] at hstep; subst hstep
    intro c hc w hw env
    rcases List.mem_append.mp hc with hc | hc
    · exact hs c hc w hw env
    · simp at hc; subst hc; simp at hw; subst hw; simp [eval]
  | placeholder n =>
    simp [step] at hstep; subst hstep
    intro c hc w hw env
    rcases List.mem_append.mp hc with hc | hc
    · exact hs c hc w hw env
    · simp at hc; subst hc; simp at hw
  | prim op args =>
    simp only [step, Option.bind_eq_bind] at hstep
    cases hv : varsOf h args with
    | none => simp [hv] at hstep
    | some vars =>
      simp only [hv, Option.bind_some] at hstep
      split at hstep
      · rename_i vs _
        cases hsem : sem op vs with
        | none => simp [hsem] at hstep
        | some v =>
          simp [hsem] at hstep; subst hstep
          intro c hc w hw env
          rcases List.mem_append.mp hc with hc | hc
          · exact hs c hc w hw env
          · simp at hc; subst hc; simp at hw; subst hw; simp [eval]
      · simp at hstep; subst hstep
        intro c hc w hw env
        rcases List.mem_append.mp hc with hc | hc
        · exact hs c hc w hw env
        · simp at hc; subst hc; simp at hw
  | copy r =>
    simp only [step, Option.bind_eq_bind] at hstep
    cases hc : h[r]? with
    | none => simp [hc] at hstep
    | some c0 =>
      simp [hc] at hstep; subst hstep
      intro c hcm w hw env
      rcases List.mem_append.mp hcm with hcm | hcm
      · exact hs c hcm w hw env
      · simp at hcm; subst hcm
        cases he : c0.eager with
        | none => simp [he] at hw
        | some v => simp [he] at hw; subst hw; simp [he, eval]
  | set dst src =>
    simp only [step, Option.bind_eq_bind] at hstep
    cases hc : h[src]? with
    | none => simp [hc] at hstep
    | some c0 =>
      simp only [hc, Option.bind_some] at hstep
      split at hstep
      · simp at hstep; subst hstep
        intro c hcm w hw env
        rcases List.mem_or_eq_of_mem_set hcm with hcm | hcm
        · exact hs c hcm w hw env
        · subst hcm; exact hs c0 (List.mem_of_getElem? hc) w hw env
      · simp at hstep

/-- every heap reachable by any history is sound -/
theorem run_sound (ort : Bool) : ∀ (steps : List Step) (h h' : Heap), Sound sem h →
    steps.foldlM (step sem ort) h = some h' → Sound sem h' := by
  intro steps
  induction steps with
  | nil => intro h h' hs hr; simp at hr; subst hr; exact hs
  | cons s ss ih =>
    intro h h' hs hr
    simp only [List.foldlM_cons, Option.bind_eq_bind] at hr
    cases h1 : step sem ort h s with
    | none => simp [h1] at hr
    | some hm => simp [h1] at hr; exact ih hm h' (step_sound sem ort h hm s hs h1) hr

example : Sound sem ([] : Heap) := by intro c hc; simp at hc

end PropSpike
